"""Self-test corpus: each entry is a one-site edit of /repo that still compiles and breaks a property;
`expect` is a substring of the violation key that must be reported.  `control: True` marks
behaviour-preserving edits on which no rule may fire."""

G = "crates/wac-graph/src/graph.rs"
MUTANTS = [
    # ---------------- C06
    dict(id="c06-drop-clear-in-remove_node", prop="C06", expect="R06.1|remove_node|", file=G,
         old="""        {
            self.graph[target].remove_satisfied_arg(index);
        }

        // Remove the node from the graph""",
         new="""        {
            let _ = (target, index);
        }

        // Remove the node from the graph"""),
    dict(id="c06-clear-uses-source", prop="C06", expect="R06.1|remove_node|", file=G,
         old="""                Edge::Argument(i) => Some((e.target(), *i)),
                Edge::Alias(_) | Edge::Dependency => None,""",
         new="""                Edge::Argument(i) => Some((e.source(), *i)),
                Edge::Alias(_) | Edge::Dependency => None,"""),
    dict(id="c06-unregister-no-clear", prop="C06", expect="R06.1|retain_nodes|", file=G,
         old="""                    Some((e.target(), *i))
                }
                _ => None,
            })
            .collect::<Vec<_>>()
        {
            self.graph[target].remove_satisfied_arg(index);
        }""",
         new="""                    Some((e.target(), *i))
                }
                _ => None,
            })
            .collect::<Vec<_>>()
        {
            let _ = (target, index);
        }"""),
    dict(id="c06-no-contains-guard", prop="C06", expect="R06.5|", file=G,
         old="""            if self.graph.contains_node(node.0) {
                self.remove_node(node);
            }""",
         new="""            self.remove_node(node);"""),
    dict(id="c06-unexport-single-name", prop="C06", expect="R06.2|unexport|", file=G,
         old="""        // The node may have been exported under additional names
        self.remove_exports_of(index);

        Ok(())""",
         new="""        let _ = index;
        Ok(())"""),
    dict(id="c06-no-generation-check", prop="C06", expect="R06.6|generation|", file=G,
         old="""        if entry.generation != generation {
            panic!("invalid package id");
        }
""",
         new="""        let _ = generation;
"""),
    dict(id="c06-unset-keeps-bit", prop="C06", expect="R06.1|remove_edge|", file=G,
         old="""            self.graph[instantiation.0].remove_satisfied_arg(argument_index);
            self.graph.remove_edge(edge);""",
         new="""            self.graph.remove_edge(edge);"""),
    dict(id="c06-import-no-map-insert-on-path", prop="C06", expect="R06.3|add_node(Import)", file=G,
         old="""        let prev = self.imports.insert(name, index);
        assert!(prev.is_none());
        Ok(NodeId(index))""",
         new="""        if !name.contains(':') {
            let prev = self.imports.insert(name, index);
            assert!(prev.is_none());
        }
        Ok(NodeId(index))"""),
    dict(id="c06-control-rename-helper", prop="C06", control=True, file=G,
         old="""        // The node may have been exported under additional names
        self.remove_exports_of(index);

        Ok(())""",
         new="""        // The node may have been exported under additional names
        self.exports.retain(|_, n| *n != index);

        Ok(())"""),

    # ---------------- C16
    dict(id="c16-define-type-hash-order", prop="C16", expect="R16.1|wac_graph::graph::CompositionGraph::define_type|", file=G,
         old="""        let mut defined: Vec<_> = self.defined.iter().collect();
        defined.sort_by_key(|(_, other)| **other);
        for (other_ty, other) in defined {""",
         new="""        for (other_ty, other) in &self.defined {"""),
    dict(id="c16-world-include-values-next", prop="C16", expect="R16.1|wac_parser::resolution::AstResolver::world_include|", file="crates/wac-parser/src/resolution.rs",
         old="""        if let Some(missing) = include
            .with
            .iter()
            .find(|item| replacements.contains_key(item.from.string))
        {""",
         new="""        if let Some(missing) = replacements.values().next() {"""),
    dict(id="c16-plug-hashmap", prop="C16", expect="R16.1|wac_cli::commands::plug::PlugCommand::exec", file="src/commands/plug.rs",
         old="""let mut plugs_by_name = indexmap::IndexMap::<_, Vec<_>>::new();""",
         new="""let mut plugs_by_name = std::collections::HashMap::<_, Vec<_>>::new();"""),
    dict(id="c16-encode-imports-vec", prop="C16", expect="R16.1|wac_graph::graph::CompositionGraphEncoder::encode_imports|", file=G,
         old="""        for (name, node_index) in explicit_imports {
            let canonical = aggregator.canonical_import_name(name);
            let (_, encoded_index) = encoded[canonical];
            state.node_indexes.insert(node_index, encoded_index);
        }""",
         new="""        for (name, node_index) in explicit_imports {
            let canonical = aggregator.canonical_import_name(name);
            let (kind, encoded_index) = encoded[canonical];
            state.node_indexes.insert(node_index, encoded_index);
            state
                .implicit_args
                .entry(node_index)
                .or_default()
                .push((name.to_owned(), kind, encoded_index));
        }"""),
    dict(id="c16-first-import-of-map", prop="C16", expect="R16.1|wac_graph::graph::CompositionGraph::get_import_name", file=G,
         old="""        let node = self.graph.node_weight(node.0).expect("invalid node id");
        match &node.kind {
            NodeKind::Import(name) => Some(name),
            _ => None,
        }
    }""",
         new="""        let node = self.graph.node_weight(node.0).expect("invalid node id");
        match &node.kind {
            NodeKind::Import(name) => Some(name),
            _ => self.imports.keys().next().map(|s| s.as_str()),
        }
    }"""),
    dict(id="c16-systemtime", prop="C16", expect="R16.2|", file=G,
         old="""        let mut state = State::new();

        // Separate import nodes from other nodes keeping topological order""",
         new="""        let mut state = State::new();
        let _started = std::time::SystemTime::now();

        // Separate import nodes from other nodes keeping topological order"""),
    dict(id="c16-control-count", prop="C16", control=True, file=G,
         old="""        let mut state = State::new();

        // Separate import nodes from other nodes keeping topological order""",
         new="""        let mut state = State::new();
        let _n = self.0.imports.values().filter(|n| n.index() > 0).count();
        let mut sorted: Vec<_> = self.0.defined.values().collect();
        sorted.sort();

        // Separate import nodes from other nodes keeping topological order"""),

    # ---------------- C14
    dict(id="c14-eof-span-byte-arith", prop="C14", expect="R14.3|span|wac_parser::lexer::Lexer::span", file="crates/wac-parser/src/lexer.rs",
         old="""            while !source.is_char_boundary(span.start) {
                span.start -= 1;
            }
            span.end = span.start
                + source[span.start..]
                    .chars()
                    .next()
                    .map_or(0, |c| c.len_utf8());""",
         new="""            let _ = source;
            span.end = span.start + 1;"""),
    dict(id="c14-access-span-plus-one", prop="C14", expect="R14.3|span|wac_parser::<ast::expr::AccessExpr", file="crates/wac-parser/src/ast/expr.rs",
         old="""                id.span.offset() - start.offset() + id.span.len(),
            ),
            id,""",
         new="""                id.span.offset() - start.offset() + id.span.len() + 1,
            ),
            id,"""),
    dict(id="c14-heap-type-unwrap", prop="C14", expect="R14.2|crates/wac-types/src/core.rs|unwrap", file="crates/wac-types/src/core.rs",
         old="""            wasmparser::HeapType::Concrete(index) => match index.as_module_index() {
                Some(index) => Self::Concrete(index),
                // Types that have been validated as part of a component refer
                // to concrete types by a canonical id rather than a module index
                None => anyhow::bail!("concrete heap type `{index}` is not supported"),
            },""",
         new="""            wasmparser::HeapType::Concrete(index) => {
                Self::Concrete(index.as_module_index().unwrap())
            }"""),
    dict(id="c14-func-exact-todo", prop="C14", expect="R14.1|wac_types::package::TypeConverter::entity_type|todo!", file="crates/wac-types/src/package.rs",
         old="""                bail!("exact function types are not yet supported")""",
         new="""                todo!("wasmparser::types::EntityType::FuncExact")"""),
    dict(id="c14-new-unreachable-in-resolver", prop="C14", expect="R14.1|wac_parser::resolution::", file="crates/wac-parser/src/resolution.rs",
         old="""        if let Some(missing) = include
            .with
            .iter()
            .find(|item| replacements.contains_key(item.from.string))
        {""",
         new="""        if replacements.len() > include.with.len() {
            unreachable!("more replacements than items");
        }
        if let Some(missing) = include
            .with
            .iter()
            .find(|item| replacements.contains_key(item.from.string))
        {"""),
    dict(id="c14-new-recursion", prop="C14", expect="R14.4|scc:", file="crates/wac-parser/src/ast/printer.rs",
         old="""    /// Prints the given new expression.
    pub fn new_expr(&mut self, expr: &NewExpr) -> std::fmt::Result {""",
         new="""    /// Prints the given new expression.
    pub fn new_expr(&mut self, expr: &NewExpr) -> std::fmt::Result {
        let _ = expr;
        Ok(())
    }

    /// Prints the given new expression.
    pub fn new_expr_old(&mut self, expr: &NewExpr) -> std::fmt::Result {""", control=True),

    # ---------------- C07
    dict(id="c07-drop-is-async", prop="C07", expect="R07.1|field|FuncType.is_async", file="crates/wac-types/src/checker.rs",
         old="""        if a.is_async != b.is_async {""", new="""        if false {"""),
    dict(id="c07-table-shared-ignored", prop="C07", expect="R07.1|field|CoreExtern::Table.shared", file="crates/wac-types/src/checker.rs",
         old="""                if ashared != bshared {
                    bail!("mismatched shared flag for tables");
                }
""", new="""                let _ = (ashared, bshared);
"""),
    dict(id="c07-unswap-world-imports", prop="C07", expect="R07.2|world|is_subtype@0", file="crates/wac-types/src/checker.rs",
         old="""                    self.is_subtype(*b, bt, *a, at)
                        .with_context(|| format!("mismatched type for import `{k}`"))?;""",
         new="""                    self.is_subtype(*a, at, *b, bt)
                        .with_context(|| format!("mismatched type for import `{k}`"))?;"""),
    dict(id="c07-memo-before-check", prop="C07", expect="R07.3|insert-after-ok", file="crates/wac-types/src/checker.rs",
         old="""        let result = self.is_subtype_(a, at, b, bt);
        if result.is_ok() {
            self.cache.insert((a, b));
        }

        result""",
         new="""        if !self.cache.insert((a, b)) {
            return Ok(());
        }

        self.is_subtype_(a, at, b, bt)"""),
    dict(id="c07-drop-check-at-argument", prop="C07", expect="R07.6|check-before-edge", file=G,
         old="""            let mut checker = SubtypeChecker::new(cache);
            checker
                .is_subtype(
                    argument_node.item_kind,
                    &graph.types,
                    *expected_argument_kind,
                    &graph.types,
                )
                .map_err(|e| InstantiationArgumentError::ArgumentTypeMismatch {
                    name: argument_name.to_string(),
                    source: e,
                })?;
""",
         new="""            let _ = (argument_node, expected_argument_kind, &cache);
"""),

    # ---------------- C09
    dict(id="c09-merge-interface-first-test-swapped", prop="C09", expect="R09.1|merge_interface|exports|keep", file="crates/wac-types/src/aggregator.rs",
         old="""                if checker
                    .is_subtype(*source_kind, types, target_kind, &self.types)
                    .is_ok()
                {
                    // Keep track that the source type should be replaced with the""",
         new="""                if checker
                    .is_subtype(target_kind, &self.types, *source_kind, types)
                    .is_ok()
                {
                    // Keep track that the source type should be replaced with the"""),
    dict(id="c09-version-compare-flipped", prop="C09", expect="R09.3|comparison", file="crates/wac-types/src/aggregator.rs",
         old="""            if new_version > existing_version {""", new="""            if new_version < existing_version {"""),
    dict(id="c09-value-merge-one-direction", prop="C09", expect="R09.2|both-directions|merge_value_type", file="crates/wac-types/src/aggregator.rs",
         old="""        checker.is_subtype(
            ItemKind::Value(existing),
            &self.types,
            ItemKind::Value(ty),
            types,
        )?;

        Ok(())""",
         new="""        Ok(())"""),
    dict(id="c09-no-retarget", prop="C09", expect="R09.3|retarget-redirects", file="crates/wac-types/src/aggregator.rs",
         old="""                for redirect in self.name_redirects.values_mut() {
                    if *redirect == existing_name {
                        *redirect = name.to_string();
                    }
                }
""", new=""""""),
    # ---------------- C10
    dict(id="c10-eager-instantiate", prop="C10", expect="R10.3|", file="crates/wac-graph/src/plug.rs",
         old="""        let mut plug_instantiation = None;
        for (plug_name, socket_name) in plug_exports {
            log::debug!("using export `{plug_name}` for plug");
            let plug_instantiation =
                *plug_instantiation.get_or_insert_with(|| graph.instantiate(plug));""",
         new="""        let plug_instantiation = graph.instantiate(plug);
        for (plug_name, socket_name) in plug_exports {
            log::debug!("using export `{plug_name}` for plug");"""),
    dict(id="c10-drop-subtype-filter", prop="C10", expect="R10.2|record-on-ok", file="crates/wac-graph/src/plug.rs",
         old="""                if checker
                    .is_subtype(*plug_ty, graph.types(), *socket_ty, graph.types())
                    .is_ok()
                {
                    plug_exports.push((name.clone(), socket_name));
                }""",
         new="""                let _ = checker.is_subtype(*plug_ty, graph.types(), *socket_ty, graph.types());
                plug_exports.push((name.clone(), socket_name));"""),
    dict(id="c10-swap-subtype-args", prop="C10", expect="R10.2|direction", file="crates/wac-graph/src/plug.rs",
         old="""                    .is_subtype(*plug_ty, graph.types(), *socket_ty, graph.types())""",
         new="""                    .is_subtype(*socket_ty, graph.types(), *plug_ty, graph.types())"""),
    dict(id="c10-ignore-argument-error", prop="C10", expect="R10.6|propagate|set_instantiation_argument", file="crates/wac-graph/src/plug.rs",
         old="""            graph
                .set_instantiation_argument(socket_instantiation, &socket_name, export)
                .map_err(|err| PlugError::GraphError { source: err.into() })?;""",
         new="""            let _ = graph.set_instantiation_argument(socket_instantiation, &socket_name, export);"""),

    # ---------------- C17
    dict(id="c17-named-args-skipped", prop="C17", expect="R17.1|position|InstantiationArgument::Named.0", file="crates/wac-resolver/src/visitor.rs",
         old="""                        InstantiationArgument::Named(a) => {
                            if !self.expr(this, &a.expr)? {
                                return Ok(false);
                            }
                        }""",
         new="""                        InstantiationArgument::Named(_) => continue,"""),
    dict(id="c17-include-not-visited", prop="C17", expect="R17.1|position|WorldInclude.world", file="crates/wac-resolver/src/visitor.rs",
         old="""            WorldItem::Include(i) => match &i.world {
                WorldRef::Package(p) => (self.0)(p.name, p.version.as_ref(), p.package_name_span()),
                WorldRef::Ident(_) => true,
            },""",
         new="""            WorldItem::Include(_) => true,"""),
    dict(id="c17-version-dropped", prop="C17", expect="R17.3|callback|world_item", file="crates/wac-resolver/src/visitor.rs",
         old="""                WorldRef::Package(p) => (self.0)(p.name, p.version.as_ref(), p.package_name_span()),""",
         new="""                WorldRef::Package(p) => (self.0)(p.name, None, p.package_name_span()),"""),
    dict(id="c17-nested-ignored", prop="C17", expect="R17.1|position|PrimaryExpr::Nested.0", file="crates/wac-resolver/src/visitor.rs",
         old="""            PrimaryExpr::Nested(e) => self.expr(this, &e.inner),""",
         new="""            PrimaryExpr::Nested(_) => Ok(true),"""),

    # ---------------- C01
    dict(id="c01-list-index-captured-early", prop="C01", expect="R01.1|encoding::TypeEncoder::list|type_count", file="crates/wac-graph/src/encoding.rs",
         old="""        let ty = self.value_type(state, ty);
        let index = state.current.encodable.type_count();
        state.current.encodable.ty().defined_type().list(ty);
        index""",
         new="""        let index = state.current.encodable.type_count();
        let ty = self.value_type(state, ty);
        state.current.encodable.ty().defined_type().list(ty);
        index"""),
    dict(id="c01-import-deps-wrong-counter", prop="C01", expect="R01.1|encoding::TypeEncoder::import_deps|type_count", file="crates/wac-graph/src/encoding.rs",
         old="""        let import_index = state.current.encodable.instance_count();

        state
            .current
            .encodable
            .import_type(iid, ComponentTypeRef::Instance(index));""",
         new="""        let import_index = state.current.encodable.type_count();

        state
            .current
            .encodable
            .import_type(iid, ComponentTypeRef::Instance(index));"""),
    dict(id="c01-component-early-return-without-pop", prop="C01", expect="R01.2|balance|encoding::TypeEncoder::component", file="crates/wac-graph/src/encoding.rs",
         old="""        for (name, kind) in &world.exports {
            self.export(state, name, *kind);
        }

        match state.pop() {""",
         new="""        for (name, kind) in &world.exports {
            self.export(state, name, *kind);
        }

        if world.imports.is_empty() && world.exports.is_empty() {
            return state.current.encodable.type_count();
        }

        match state.pop() {"""),
    dict(id="c01-exports-before-nodes", prop="C01", expect="R01.3|order|", file=G,
         old="""        // First populate the state with both implicit instantiation arguments and explicit imports
        self.encode_imports(&mut state, import_nodes)?;
""",
         new="""""" ),

    # ---------------- behaviour-preserving controls: no rule of ANY property may fire (prop="ALL")
    dict(id="ctl-rename-helper", prop="ALL", control=True, file=G, multi=True,
         old="remove_satisfied_arg", new="clear_satisfied_arg"),
    dict(id="ctl-extract-option-helper", prop="ALL", control=True, file="crates/wac-graph/src/encoding.rs",
         old="""    fn option(&self, state: &mut State, ty: ValueType) -> u32 {
        let ty = self.value_type(state, ty);
        let index = state.current.encodable.type_count();
        state.current.encodable.ty().defined_type().option(ty);
        index
    }""",
         new="""    fn option(&self, state: &mut State, ty: ValueType) -> u32 {
        let ty = self.value_type(state, ty);
        Self::emit_option(state, ty)
    }

    fn emit_option(state: &mut State, ty: ComponentValType) -> u32 {
        let index = state.current.encodable.type_count();
        state.current.encodable.ty().defined_type().option(ty);
        index
    }"""),
    dict(id="ctl-bidi-range-pattern", prop="ALL", control=True, file="crates/wac-parser/src/lexer.rs",
         old="""            '\\u{202a}' | '\\u{202b}' | '\\u{202c}' | '\\u{202d}' | '\\u{202e}' | '\\u{2066}'
            | '\\u{2067}' | '\\u{2068}' | '\\u{2069}' => {""",
         new="""            '\\u{202a}'..='\\u{202e}' | '\\u{2066}'..='\\u{2069}' => {"""),
    dict(id="ctl-plug-is-none-idiom", prop="ALL", control=True, file="crates/wac-graph/src/plug.rs",
         old="""            let plug_instantiation =
                *plug_instantiation.get_or_insert_with(|| graph.instantiate(plug));""",
         new="""            if plug_instantiation.is_none() {
                plug_instantiation = Some(graph.instantiate(plug));
            }
            let plug_instantiation = plug_instantiation.unwrap();"""),
    dict(id="ctl-unique-match-by-match", prop="ALL", control=True, file="crates/wac-parser/src/resolution.rs",
         old="""        let (name, _) = matches.next()?;
        if matches.next().is_some() {
            // More than one match, the name is ambiguous
            return None;
        }

        Some(name)""",
         new="""        match (matches.next(), matches.next()) {
            (Some((name, _)), None) => Some(name),
            // No match, or more than one match (the name is ambiguous)
            _ => None,
        }"""),
    dict(id="ctl-checker-reorder-independent-tests", prop="ALL", control=True, file="crates/wac-types/src/checker.rs",
         old="""                if ashared != bshared {
                    bail!("mismatched shared flag for memories");
                }

                if a64 != b64 {
                    bail!("mismatched memory64 flag for memories");
                }
""",
         new="""                if a64 != b64 {
                    bail!("mismatched memory64 flag for memories");
                }

                if ashared != bshared {
                    bail!("mismatched shared flag for memories");
                }
"""),
    dict(id="ctl-visitor-all-instead-of-loop", prop="ALL", control=True, file="crates/wac-resolver/src/visitor.rs",
         old="""            TypeStatement::World(w) => {
                for item in &w.items {
                    if !self.world_item(item) {
                        return false;
                    }
                }

                true
            }""",
         new="""            TypeStatement::World(w) => w.items.iter().all(|item| self.world_item(item)),"""),
    dict(id="ctl-fs-rename-locals-and-comments", prop="ALL", control=True, file="crates/wac-resolver/src/fs.rs",
         old="""                    let mut path = self.root.clone();
                    for segment in key.name.split(':') {
                        path.push(segment);
                    }""",
         new="""                    // <root>/<ns>/<name>...
                    let mut path = self.root.clone();
                    for part in key.name.split(':') {
                        path.push(part);
                    }"""),
    dict(id="ctl-aggregate-let-binding", prop="ALL", control=True, file="crates/wac-types/src/aggregator.rs",
         old="""            if new_version > existing_version {""",
         new="""            let newer = new_version > existing_version;
            if newer {"""),
    dict(id="ctl-printer-write-str", prop="ALL", control=True, file="crates/wac-parser/src/ast/printer.rs",
         old="""            write!(self.writer, " targets ")?;""",
         new="""            self.writer.write_str(" targets ")?;"""),

    # ---------------- reverts of fixed defects (the check must report the violation again if it returns)
    dict(id="c13-revert-fill-separator", prop="C13", expect="R13.5|separator|new_expr|Fill", file="crates/wac-parser/src/ast/printer.rs",
         old="""                    if i + 1 < expr.arguments.len() {
                        write!(self.writer, ",")?;
                    }""",
         new="""                    let _ = i;"""),
    dict(id="c13-revert-targets-keyword", prop="C13", expect="R13.4|tokens|package_directive", file="crates/wac-parser/src/ast/printer.rs",
         old="""            write!(self.writer, " targets ")?;""", new="""            write!(self.writer, " ")?;"""),
    dict(id="c08-revert-item-kind-arms", prop="C08", expect="R08.6|total|TypeEncoder::export", file="crates/wac-graph/src/encoding.rs",
         old="""                ItemKind::Component(_) => ComponentTypeRef::Component(index),
                ItemKind::Module(_) => ComponentTypeRef::Module(index),
                ItemKind::Value(_) => ComponentTypeRef::Value(ComponentValType::Type(index)),
            },""",
         new="""                _ => panic!("expected only types, functions, and instance types"),
            },"""),
    dict(id="c20-revert-name-keyed-map", prop="C20", expect="R20.1|work-list-is-1-1", file="crates/wac-resolver/src/registry.rs",
         edits=[("""            .collect::<Result<Vec<(PackageName, (Option<Version>, SourceSpan))>, Error>>()?;""",
                 """            .collect::<Result<IndexMap<PackageName, (Option<Version>, SourceSpan)>, Error>>()?;"""),
                ("""                        .find(|(n, _)| *n == name)""", """                        .find(|(n, _)| **n == name)""")]),
    dict(id="c03-imports-filter-not-negated", prop="C03", expect="R03.1|unsatisfied-filter|imports", file=G,
         old="""                .filter(|(i, _)| !node.is_arg_satisfied(*i));

            // Go through the unsatisfied arguments and import them
            for (_, (name, item_kind)) in unsatisfied_args {""",
         new="""                .filter(|(i, _)| node.is_arg_satisfied(*i));

            // Go through the unsatisfied arguments and import them
            for (_, (name, item_kind)) in unsatisfied_args {"""),
    dict(id="c03-raw-name-lookup", prop="C03", expect="R03.3|canonical-lookup", file=G,
         old="""            let canonical = aggregator.canonical_import_name(name);
            let (kind, index) = encoded[canonical];""",
         new="""            let (kind, index) = encoded[name];"""),
    dict(id="c02-argument-index-of-target", prop="C02", expect="R02.1|argument-index", file=G,
         old="""                    let index = state.node_indexes[&e.source()];""",
         new="""                    let index = state.node_indexes[&e.target()];"""),
    dict(id="c02-swap-name-maps", prop="C02", expect="R02.6|names|", file=G,
         old="""                    ItemKind::Func(_) => &mut funcs,
                    ItemKind::Instance(_) => &mut instances,""",
         new="""                    ItemKind::Func(_) => &mut instances,
                    ItemKind::Instance(_) => &mut funcs,"""),
    dict(id="c02-no-memo-insert", prop="C02", expect="R02.4|", file=G,
         old="""            state.packages.insert(package_id, index);
            index""", new="""            index"""),
    dict(id="c19-swap-flags", prop="C19", expect="R19.1|option|", file="src/commands/compose.rs",
         old="""            define_components: !self.import_dependencies,
            validate: !self.no_validate,""",
         new="""            define_components: !self.no_validate,
            validate: !self.import_dependencies,"""),
    dict(id="c19-polarity", prop="C19", expect="R19.1|option|define_components", file="src/commands/compose.rs",
         old="""            define_components: !self.import_dependencies,""", new="""            define_components: self.import_dependencies,"""),
    dict(id="c18-set-extension-instead-of-append", prop="C18", expect="R18.2|", file="crates/wac-resolver/src/fs.rs",
         old="""                        append_extension(&mut path, "wasm");""", new="""                        path.set_extension("wasm");"""),
    dict(id="c11-exports-world-first", prop="C11", expect="R11.1|exports|resolver", file="crates/wac-parser/src/resolution.rs",
         old="""                .is_subtype(
                    state.graph[export].item_kind(),
                    state.graph.types(),
                    expected.promote(),
                    state.graph.types(),
                )""",
         new="""                .is_subtype(
                    expected.promote(),
                    state.graph.types(),
                    state.graph[export].item_kind(),
                    state.graph.types(),
                )"""),
    dict(id="c06-unset-find-edge", prop="C06", expect="R06.9|edge-selection", file="crates/wac-graph/src/graph.rs",
         old="""        let mut edge = None;
        for e in self.graph.edges_connecting(argument.0, instantiation.0) {
            match e.weight() {
                Edge::Alias(_) | Edge::Dependency => {
                    panic!("unexpected edge for an instantiation")
                }
                Edge::Argument(i) => {
                    if *i == argument_index {
                        edge = Some(e.id());
                        break;
                    }
                }
            }
        }
""",
         new="""        let edge = self.graph.find_edge(argument.0, instantiation.0);
"""),
    dict(id="c06-unset-first-argument-edge", prop="C06", expect="R06.9|edge-selection", file="crates/wac-graph/src/graph.rs",
         old="""        let mut edge = None;
        for e in self.graph.edges_connecting(argument.0, instantiation.0) {
            match e.weight() {
                Edge::Alias(_) | Edge::Dependency => {
                    panic!("unexpected edge for an instantiation")
                }
                Edge::Argument(i) => {
                    if *i == argument_index {
                        edge = Some(e.id());
                        break;
                    }
                }
            }
        }
""",
         new="""        let edge = self
            .graph
            .edges_connecting(argument.0, instantiation.0)
            .find_map(|e| match e.weight() {
                Edge::Alias(_) | Edge::Dependency => {
                    panic!("unexpected edge for an instantiation")
                }
                Edge::Argument(_) => Some(e.id()),
            });
"""),
    dict(id="ctl-rename-anchored-resolver-fn", prop="ALL", control=True, file="crates/wac-parser/src/resolution.rs", multi=True,
         old="inferred_instantiation_arg", new="infer_argument_name"),
    dict(id="ctl-rename-aggregator-search", prop="ALL", control=True, file="crates/wac-types/src/aggregator.rs", multi=True,
         old="find_semver_compatible_import", new="lookup_compatible_import"),
    dict(id="ctl-rename-encoder-fn", prop="ALL", control=True, file="crates/wac-graph/src/encoding.rs", multi=True,
         old="import_deps", new="import_dependencies"),
    dict(id="ctl-unset-find-map-guarded", prop="ALL", control=True, file="crates/wac-graph/src/graph.rs",
         old="""        let mut edge = None;
        for e in self.graph.edges_connecting(argument.0, instantiation.0) {
            match e.weight() {
                Edge::Alias(_) | Edge::Dependency => {
                    panic!("unexpected edge for an instantiation")
                }
                Edge::Argument(i) => {
                    if *i == argument_index {
                        edge = Some(e.id());
                        break;
                    }
                }
            }
        }
""",
         new="""        let edge = self
            .graph
            .edges_connecting(argument.0, instantiation.0)
            .find_map(|e| match e.weight() {
                Edge::Alias(_) | Edge::Dependency => {
                    panic!("unexpected edge for an instantiation")
                }
                Edge::Argument(i) if *i == argument_index => Some(e.id()),
                Edge::Argument(_) => None,
            });
"""),
    dict(id="ctl-unset-find-then-id", prop="ALL", control=True, file="crates/wac-graph/src/graph.rs",
         old="""        let mut edge = None;
        for e in self.graph.edges_connecting(argument.0, instantiation.0) {
            match e.weight() {
                Edge::Alias(_) | Edge::Dependency => {
                    panic!("unexpected edge for an instantiation")
                }
                Edge::Argument(i) => {
                    if *i == argument_index {
                        edge = Some(e.id());
                        break;
                    }
                }
            }
        }
""",
         new="""        let edge = self
            .graph
            .edges_connecting(argument.0, instantiation.0)
            .find(|e| match e.weight() {
                Edge::Alias(_) | Edge::Dependency => {
                    panic!("unexpected edge for an instantiation")
                }
                Edge::Argument(i) => *i == argument_index,
            })
            .map(|e| e.id());
"""),
    dict(id="c01-acceptance-default-features", prop="C01", expect="R01.8|features", file="crates/wac-types/src/package.rs",
         old="""        let mut validator = Validator::new_with_features(WasmFeatures::all());""",
         new="""        let mut validator = Validator::new();"""),
    dict(id="c02-instantiation-returns-component-index", prop="C02", expect="R02.1|own-emission|instantiation", file="crates/wac-graph/src/graph.rs",
         old="""            "instantiation of package `{package}` encoded to instance index {index}",
            package = package.name(),
        );

        index
    }""",
         new="""            "instantiation of package `{package}` encoded to instance index {index}",
            package = package.name(),
        );

        component_index
    }"""),
    dict(id="c04-import-name-unguarded", prop="C04", expect="R04.1|own-guard|import-name", file="crates/wac-parser/src/resolution.rs",
         old="""        if let Some(name) = state.graph.get_import_name(node) {
            if world.imports.contains_key(name) {
                return Ok((name.to_string(), item, ident.span));
            }
        } else if""",
         new="""        if let Some(name) = state.graph.get_import_name(node) {
            return Ok((name.to_string(), item, ident.span));
        } else if"""),
    dict(id="c06-alias-without-package", prop="C06", expect="R06.10|alias-inherits-package", file="crates/wac-graph/src/graph.rs",
         old="""        let node = Node::new(NodeKind::Alias, *kind, instance_node.package);""",
         new="""        let node = Node::new(NodeKind::Alias, *kind, None);"""),
    dict(id="c13-field-docs-twice", prop="C13", expect="R13.7|docs-once|Field", file="crates/wac-parser/src/ast/printer.rs",
         old="""        for field in &decl.fields {
            self.docs(&field.docs)?;
            self.indent()?;""",
         new="""        for field in &decl.fields {
            self.docs(&field.docs)?;
            self.docs(&field.docs)?;
            self.indent()?;"""),
    dict(id="c13-doc-line-trim-end-only", prop="C13", expect="R13.8|doc-line-trimmed", file="crates/wac-parser/src/ast/printer.rs",
         old="""line = line.trim())?;""", new="""line = line.trim_end())?;"""),
    dict(id="c14-import-resource-keyed-by-import-name", prop="C14", expect="R14.8|key|resources|import_resource", file="crates/wac-graph/src/encoding.rs",
         old="""            log::debug!("encoded import for resource `{name}` to type index {index}");
            index
        };

        state.current.resources.insert(resource.name.clone(), index);""",
         new="""            log::debug!("encoded import for resource `{name}` to type index {index}");
            index
        };

        state.current.resources.insert(name.to_string(), index);"""),
    dict(id="c09-revert-d20-interface-id-rename", prop="C09", expect="R09.3|rename-interface-id", file="crates/wac-types/src/aggregator.rs",
         old="""                        self.types[id].id = Some(name.to_string());""",
         new="""                        let _ = id;"""),
    dict(id="c09-interface-search-gives-up-early", prop="C09", expect="R09.3|search-complete|find_semver_compatible_interface", file="crates/wac-types/src/aggregator.rs",
         old="""        for (existing_name, id) in &self.interfaces {
            if let Some((existing_alt, _)) = alternate_lookup_key(existing_name) {
                if existing_alt == alt_key {
                    return Some(*id);
                }
            }
        }""",
         new="""        for (existing_name, id) in &self.interfaces {
            let (existing_alt, _) = alternate_lookup_key(existing_name)?;
            if existing_alt == alt_key {
                return Some(*id);
            }
        }"""),
    dict(id="c09-merge-skips-existing-exports", prop="C09", expect="R09.1|every-entry|merge_interface", file="crates/wac-types/src/aggregator.rs",
         old="""        // Merge the interface's exports
        for (name, source_kind) in &types[id].exports {
            if let Some(target_kind) = self.types[existing].exports.get(name).copied() {""",
         new="""        // Merge the interface's exports
        for (name, source_kind) in &types[id].exports {
            if name.starts_with('[') {
                continue;
            }
            if let Some(target_kind) = self.types[existing].exports.get(name).copied() {"""),
    dict(id="c07-variant-cases-map-equality", prop="C07", expect="R07.7|eq|checker::SubtypeChecker::variant", file="crates/wac-types/src/checker.rs",
         old="""    fn variant(&self, a: &Variant, at: &Types, b: &Variant, bt: &Types) -> Result<()> {
        if a.cases.len() != b.cases.len() {""",
         new="""    fn variant(&self, a: &Variant, at: &Types, b: &Variant, bt: &Types) -> Result<()> {
        if std::ptr::eq(at, bt) && a.cases == b.cases {
            return Ok(());
        }
        if a.cases.len() != b.cases.len() {"""),
    dict(id="c01-result-index-before-err-operand", prop="C01", expect="R01.1|encoding::TypeEncoder::result", file="crates/wac-graph/src/encoding.rs",
         old="""        let err = err.map(|ty| self.value_type(state, ty));
        let index = state.current.encodable.type_count();
        state.current.encodable.ty().defined_type().result(ok, err);""",
         new="""        let index = state.current.encodable.type_count();
        let err = err.map(|ty| self.value_type(state, ty));
        state.current.encodable.ty().defined_type().result(ok, err);"""),
    dict(id="c05-dependency-instance-cached-as-interface-type", prop="C05", expect="R05.7|writer|Scope::type_indexes", file="crates/wac-graph/src/encoding.rs",
         old="""        let index = self.instance(state, id, !state.scopes.is_empty());""",
         new="""        let index = self.instance(state, id, !state.scopes.is_empty());
        state.current.type_indexes.insert(Type::Interface(id), index);"""),
    dict(id="c05-include-imports-checked-against-exports", prop="C05", expect="R05.8|include-namespace", file="crates/wac-parser/src/resolution.rs",
         old="""                ExternKind::Import,
                &mut replacements,
            )?;
            ty.imports.entry(name).or_insert(*item);""",
         new="""                ExternKind::Export,
                &mut replacements,
            )?;
            ty.imports.entry(name).or_insert(*item);"""),
    dict(id="c10-semver-scan-skips-first-import", prop="C10", expect="R10.1|semver-scan-whole-map", file="crates/wac-graph/src/plug.rs",
         old="""                        .iter()
                        .find(|(import_name, _)| are_semver_compatible(name, import_name))""",
         new="""                        .iter()
                        .skip(1)
                        .find(|(import_name, _)| are_semver_compatible(name, import_name))"""),
    dict(id="c14-revert-d21-interface-type-after-func", prop="C14", expect="R14.9|fresh|resolution::AstResolver::item_type_decl", file="crates/wac-parser/src/resolution.rs",
         old="""                    if matches!(ty.exports.get(id.string), Some(kind) if !matches!(kind, ItemKind::Type(_)))
                    {
                        return Err(Error::DuplicateInterfaceExport {
                            name: id.string.to_owned(),
                            interface_name: name.map(ToOwned::to_owned),
                            span: id.span,
                        });
                    }
""", new=""),
    dict(id="c13-nested-prints-primary-only", prop="C13", expect="R13.9|whole-child", file="crates/wac-parser/src/ast/printer.rs",
         old="""                self.expr(&e.inner)?;
                write!(self.writer, ")")""",
         new="""                self.primary_expr(&e.inner.primary)?;
                write!(self.writer, ")")"""),
    dict(id="c17-local-include-stops-walk", prop="C17", expect="R17.1|stop-only-on-callback|world_item", file="crates/wac-resolver/src/visitor.rs",
         old="""                WorldRef::Ident(_) => true,""", new="""                WorldRef::Ident(_) => false,"""),
    dict(id="c17-targets-version-of-document", prop="C17", expect="R17.3|callback|visit", file="crates/wac-resolver/src/visitor.rs",
         old="""                targets.version.as_ref(),""", new="""                doc.directive.package.version.as_ref(),"""),
    dict(id="c19-overrides-filtered", prop="C19", expect="R19.4|R18.6/overrides-passed-through", file="src/lib.rs",
         old="""            fs: FileSystemPackageResolver::new(dir, overrides, false),""",
         new="""            fs: FileSystemPackageResolver::new(
                dir,
                overrides.into_iter().filter(|(_, p)| p.exists()).collect(),
                false,
            ),"""),
    dict(id="c01-instance-core-type-count-from-types", prop="C01", expect="R01.1|forward|Encodable::core_type_count|Instance", file="crates/wac-graph/src/encoding.rs",
         old="""            Encodable::Instance(t) => t.core_type_count(),""", new="""            Encodable::Instance(t) => t.type_count(),"""),
    dict(id="c04-spread-export-empty-check-only", prop="C04", expect="R04.2|spread-export-effect", file="crates/wac-parser/src/resolution.rs",
         edits=[("""                let mut exported = false;
                for name in exports {""", """                let exported = !exports.is_empty();
                for name in exports {"""),
                ("""                    self.export_item(state, item, name, *span, false)?;
                    exported = true;
                }""", """                    self.export_item(state, item, name, *span, false)?;
                }""")]),
    dict(id="c14-decoder-eof-computed", prop="C14", expect="R14.9|whole-input", file="crates/wac-types/src/package.rs",
         old="""            match parser.parse(cur, true)? {""", new="""            match parser.parse(cur, cur.len() < 8)? {"""),
    dict(id="c13-result-args-swapped", prop="C13", expect="R13.11|order|ty|Type::Result", file="crates/wac-parser/src/ast/printer.rs",
         old="""                    write!(self.writer, "result<")?;
                    self.ty(ok)?;
                    write!(self.writer, ", ")?;
                    self.ty(err)?;""",
         new="""                    write!(self.writer, "result<")?;
                    self.ty(err)?;
                    write!(self.writer, ", ")?;
                    self.ty(ok)?;"""),
    dict(id="c17-nested-not-recursive", prop="C17", expect="R17.1|nested-any-depth", file="crates/wac-resolver/src/visitor.rs",
         old="""            PrimaryExpr::Nested(e) => self.expr(this, &e.inner),""",
         new="""            PrimaryExpr::Nested(e) => Ok(matches!(e.inner.primary, PrimaryExpr::Ident(_)) || true),"""),
    dict(id="c06-unregister-early-return", prop="C06", expect="R06.6|unregister-complete", file="crates/wac-graph/src/graph.rs",
         old="""        // Remove exports and definitions associated with the package before
        // removing nodes, as retain_nodes invalidates the node indices.""",
         new="""        if self.graph.node_count() == 0 {
            return;
        }
        // Remove exports and definitions associated with the package before
        // removing nodes, as retain_nodes invalidates the node indices."""),
    dict(id="c01-instances-looked-up-by-import-name", prop="C01", expect="R01.3|R14.8/lookup-key|instances", file="crates/wac-graph/src/graph.rs",
         old="""                if let Some(index) = state.current.instances.get(id) {""",
         new="""                if let Some(index) = state.current.instances.get(name) {"""),
    dict(id="c12-lexical-comment-needs-newline", prop="C12", expect="R12.10|pattern|Token::Comment", file="crates/wac-parser/src/lexer.rs",
         old="""    #[regex(r"//[^\\n]*", logos::skip)]""", new="""    #[regex(r"//[^\\n]*\\n", logos::skip)]"""),
    dict(id="c12-lexical-ident-digit-start", prop="C12", expect="R12.10|pattern|Token::Ident", file="crates/wac-parser/src/lexer.rs",
         old="""#[logos(subpattern word = r"[a-z][a-z0-9]*|[A-Z][A-Z0-9]*")]""", new="""#[logos(subpattern word = r"[a-z0-9][a-z0-9]*|[A-Z][A-Z0-9]*")]"""),
    dict(id="ctl-lexical-respelled-patterns", prop="ALL", control=True, file="crates/wac-parser/src/lexer.rs", multi=True,
         edits=[("""    #[regex(r"//[^\\n]*", logos::skip)]""", """    #[regex(r"//([^\\n])*", logos::skip)]"""),
                ("""#[logos(subpattern word = r"[a-z][a-z0-9]*|[A-Z][A-Z0-9]*")]""", """#[logos(subpattern word = r"[A-Z][0-9A-Z]*|[a-z][0-9a-z]*")]""")]),
    dict(id="c12-grammar-interface-export-separator", prop="C12", expect="R12.1|production|type::InterfaceExport", file="crates/wac-parser/src/ast/type.rs",
         old="""        let id = Ident::parse(lexer)?;
        parse_token(lexer, Token::Colon)?;
        let ty = Parse::parse(lexer)?;
        parse_token(lexer, Token::Semicolon)?;
        Ok(Self { docs, id, ty })""",
         new="""        let id = Ident::parse(lexer)?;
        parse_token(lexer, Token::Equals)?;
        let ty = Parse::parse(lexer)?;
        parse_token(lexer, Token::Semicolon)?;
        Ok(Self { docs, id, ty })"""),
    dict(id="c12-grammar-peek-first-too-narrow", prop="C12", expect="R12.2|peek-first|type::ResourceMethod", file="crates/wac-parser/src/ast/type.rs",
         old="""        lookahead.peek(Token::ConstructorKeyword) || Ident::peek(lookahead)""",
         new="""        lookahead.peek(Token::ConstructorKeyword)"""),
    dict(id="c12-grammar-stale-lookahead", prop="C12", expect="R12.8|fresh|expr::InstantiationArgument", file="crates/wac-parser/src/ast/expr.rs",
         old="""            let span = parse_token(lexer, Token::Ellipsis)?;
            match lexer.peek() {""",
         new="""            let span = parse_token(lexer, Token::Ellipsis)?;
            if Ident::peek(&mut lookahead) {
                return Ok(Self::Spread(Parse::parse(lexer)?));
            }
            match lexer.peek() {"""),
    dict(id="c12-keyword-spelling", prop="C12", expect="R12.3|token|IncludeKeyword", file="crates/wac-parser/src/lexer.rs",
         old="""    #[token("include")]""", new="""    #[token("includes")]"""),
    dict(id="c12-trailing-separator-mandatory", prop="C12", expect="R12.7|trailing-comma-optional", file="crates/wac-parser/src/ast.rs",
         old="""        if let Some((Ok(next), _)) = lexer.peek() {
            if next == until {
                break;
            }

            if with_commas {
                parse_token(lexer, Token::Comma)?;
            }
        }""",
         new="""        if with_commas {
            parse_token(lexer, Token::Comma)?;
        }"""),
    dict(id="c05-swap-s8-u8", prop="C05", expect="R05.2|table|", file="crates/wac-parser/src/resolution.rs",
         old="""            ast::Type::U8(_) => Ok(ValueType::Primitive(PrimitiveType::U8)),
            ast::Type::S8(_) => Ok(ValueType::Primitive(PrimitiveType::S8)),""",
         new="""            ast::Type::U8(_) => Ok(ValueType::Primitive(PrimitiveType::S8)),
            ast::Type::S8(_) => Ok(ValueType::Primitive(PrimitiveType::U8)),"""),
    dict(id="c08-swap-memory-flags", prop="C08", expect="R08.1|field|", file="crates/wac-types/src/core.rs",
         old="""            memory64: ty.memory64,
            shared: ty.shared,""",
         new="""            memory64: ty.shared,
            shared: ty.memory64,"""),
    dict(id="c04-suffix-before-import-name", prop="C04", expect="R04.1|", file="crates/wac-parser/src/resolution.rs",
         old="""        // If the item comes from an import or an alias, try the name associated with it
        let node = item.node();
        if let Some(name) = state.graph.get_import_name(node) {
            if world.imports.contains_key(name) {
                return Ok((name.to_string(), item, ident.span));
            }
        } else if let Some((_, name)) = state.graph.get_alias_source(node) {
            if world.imports.contains_key(name) {
                return Ok((name.to_string(), item, ident.span));
            }
        }

        // Fall back to searching for a matching interface name, provided it is not ambiguous
        // For example, match `foo:bar/baz` if `baz` is the identifier and the only match
        if let Some(name) = Self::find_matching_interface_name(ident.string, &world.imports) {
            return Ok((name.to_owned(), item, ident.span));
        }
""",
         new="""        // Fall back to searching for a matching interface name, provided it is not ambiguous
        // For example, match `foo:bar/baz` if `baz` is the identifier and the only match
        if let Some(name) = Self::find_matching_interface_name(ident.string, &world.imports) {
            return Ok((name.to_owned(), item, ident.span));
        }

        // If the item comes from an import or an alias, try the name associated with it
        let node = item.node();
        if let Some(name) = state.graph.get_import_name(node) {
            if world.imports.contains_key(name) {
                return Ok((name.to_string(), item, ident.span));
            }
        } else if let Some((_, name)) = state.graph.get_alias_source(node) {
            if world.imports.contains_key(name) {
                return Ok((name.to_string(), item, ident.span));
            }
        }
"""),

    dict(id="c14-revert-borrow-assert", prop="C14", expect="R14.1|wac_graph::encoding::TypeEncoder::borrow|assert!", file="crates/wac-graph/src/encoding.rs",
         old="""    fn borrow(&self, state: &mut State, res: ResourceId) -> u32 {
        let res""",
         new="""    fn borrow(&self, state: &mut State, res: ResourceId) -> u32 {
        assert!(!state.scopes.is_empty());
        let res"""),
]
