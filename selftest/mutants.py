"""Self-test corpus: each entry is a one-site edit of /repo that still compiles and breaks a property;
`expect` is a substring of the violation key that must be reported.  `control: True` marks
behaviour-preserving edits on which no rule may fire."""

G = "crates/wac-graph/src/graph.rs"
MUTANTS = [
    # ---------------- C06
    dict(id="c06-drop-clear-in-remove_node", prop="C06", expect="R06.1|remove_node|", file=G,
         old="""        {
            self.graph[target].remove_satisfied_arg(index);
        }

        // Remove the node from the graph""",
         new="""        {
            let _ = (target, index);
        }

        // Remove the node from the graph"""),
    dict(id="c06-clear-uses-source", prop="C06", expect="R06.1|remove_node|", file=G,
         old="""                Edge::Argument(i) => Some((e.target(), *i)),
                Edge::Alias(_) | Edge::Dependency => None,""",
         new="""                Edge::Argument(i) => Some((e.source(), *i)),
                Edge::Alias(_) | Edge::Dependency => None,"""),
    dict(id="c06-unregister-no-clear", prop="C06", expect="R06.1|retain_nodes|", file=G,
         old="""                    Some((e.target(), *i))
                }
                _ => None,
            })
            .collect::<Vec<_>>()
        {
            self.graph[target].remove_satisfied_arg(index);
        }""",
         new="""                    Some((e.target(), *i))
                }
                _ => None,
            })
            .collect::<Vec<_>>()
        {
            let _ = (target, index);
        }"""),
    dict(id="c06-no-contains-guard", prop="C06", expect="R06.5|", file=G,
         old="""            if self.graph.contains_node(node.0) {
                self.remove_node(node);
            }""",
         new="""            self.remove_node(node);"""),
    dict(id="c06-unexport-single-name", prop="C06", expect="R06.2|unexport|", file=G,
         old="""        // The node may have been exported under additional names
        self.remove_exports_of(index);

        Ok(())""",
         new="""        let _ = index;
        Ok(())"""),
    dict(id="c06-no-generation-check", prop="C06", expect="R06.6|generation|", file=G,
         old="""        if entry.generation != generation {
            panic!("invalid package id");
        }
""",
         new="""        let _ = generation;
"""),
    dict(id="c06-unset-keeps-bit", prop="C06", expect="R06.1|remove_edge|", file=G,
         old="""            self.graph[instantiation.0].remove_satisfied_arg(argument_index);
            self.graph.remove_edge(edge);""",
         new="""            self.graph.remove_edge(edge);"""),
    dict(id="c06-import-no-map-insert-on-path", prop="C06", expect="R06.3|add_node(Import)", file=G,
         old="""        let prev = self.imports.insert(name, index);
        assert!(prev.is_none());
        Ok(NodeId(index))""",
         new="""        if !name.contains(':') {
            let prev = self.imports.insert(name, index);
            assert!(prev.is_none());
        }
        Ok(NodeId(index))"""),
    dict(id="c06-control-rename-helper", prop="C06", control=True, file=G,
         old="""        // The node may have been exported under additional names
        self.remove_exports_of(index);

        Ok(())""",
         new="""        // The node may have been exported under additional names
        self.exports.retain(|_, n| *n != index);

        Ok(())"""),
]
