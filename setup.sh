#!/bin/bash
# Build the fact extractor and warm the dependency cache (offline).  Idempotent.
set -e
cd "$(dirname "$0")"
export CARGO_NET_OFFLINE=true
(cd driver && cargo +nightly build --release --offline 2>&1 | tail -2)
# one extraction of /repo's current tree: compiles the third-party dependencies under the
# nightly toolchain into .cache/target-default and leaves the fact files for the quick checks
python3 - <<'PY'
import sys, os
sys.path.insert(0, os.path.join(os.getcwd(), "lib"))
import engine
print("facts:", engine.ensure_facts("default"))
# second configuration (`--features wat`): the `.wat` lookup branch of the file-system resolver exists only there (C18)
print("facts (wat):", engine.ensure_facts("wat"))
PY
