"""C09 — merged import requirements satisfy every contributor, order-independently."""
import re
from cfg import CFG, error_blocks
from prov import narrow
from pat import *
import c10

EXPLANATION = ("structural rules over the MIR of wac_types::aggregator: every merge loop first tests the direction in which nothing "
               "has to change and then *requires* the opposite direction with `?` (roles swapped for imports inside invert/revert), "
               "equality merges check both directions, the highest-version branch renames the import, re-targets existing redirects "
               "and adds old->new while the other branch only adds new->existing, used-type merges always unify the used interface, "
               "semver tracks are compared by key equality. Necessary conditions of the merge rules; upper-bound / commutativity laws "
               "over values are not decided")

AG = "wac_types::aggregator::TypeAggregator::"
CK = "wac_types::checker::SubtypeChecker::"


def side_of_types(prov, f, op, types_param):
    """'F' if the type-collection operand is the foreign `types` parameter, 'S' if it is `self.types`."""
    sl = narrow(prov, f, op)
    foreign = any(i == types_param for fid, i in sl.params if fid == f.id)
    mine = sl.has_field("types", "aggregator::TypeAggregator")
    return "F" if foreign and not mine else "S" if mine and not foreign else "?"


def types_param(f):
    for i in range(1, f.arg_count + 1):
        if f.locals[i].endswith("component::Types") and f.locals[i].startswith("&"):
            return i
    return None


def run(ctx):
    db, prov = ctx.db, ctx.prov
    merges = [f for f in db.fns.values() if f.id.startswith(AG + "merge_") and "{closure" not in f.id]
    ctx.ob("R09.1", "anchor", len(merges) >= 9, "merge functions found: %d" % len(merges), nontrivial=False)
    n1 = n2 = 0
    for f in sorted(merges, key=lambda x: x.id):
        ctx.touch(f)
        tp = types_param(f)
        if tp is None:
            continue
        cfg = CFG(f)
        calls = [t for t in f.calls() if t.path in (CK + "is_subtype", CK + "core_extern")]
        if not calls:
            continue
        inv = [t for t in f.calls() if t.path == CK + "invert"]
        rev = [t for t in f.calls() if t.path == CK + "revert"]
        name = f.id.rsplit("::", 1)[1]
        in_loop = [t for t in calls if cfg.reaches(t.bb, t.bb)]
        if not in_loop:
            # ---- R09.2 equality merge: two checks with swapped sides, both propagated
            dirs = []
            for t in calls:
                d = (side_of_types(prov, f, t.args[2], tp), side_of_types(prov, f, t.args[4], tp))
                prop = any((c.declared or "").endswith("Try::branch") and any(x is t for _, x in prov.slice(f, c.args[0]).calls) for c in f.calls())
                dirs.append((d, prop))
            ok = {d for d, p in dirs if p} >= {("F", "S"), ("S", "F")}
            n2 += 1
            ctx.ob("R09.2", "both-directions|" + name, ok,
                   "equality merge: is_subtype is required in both directions with `?`" if ok else
                   "equality merge does not require both directions (found %s)" % dirs, site=f.span)
            continue
        # ---- R09.1 loops
        for t in in_loop:
            d = (side_of_types(prov, f, t.args[2], tp), side_of_types(prov, f, t.args[4], tp))
            sl = prov.slice(f, t.args[1])
            sl.fields |= prov.slice(f, t.args[3]).fields
            coll = "imports" if sl.has_field("imports") and not sl.has_field("exports") else "exports" if sl.has_field("exports") and not sl.has_field("imports") else "?"
            keep = any((c.path or "").endswith("Result::is_ok") and any(x is t for _, x in prov.slice(f, c.args[0]).calls) for c in f.calls())
            req = any((c.declared or "").endswith("Try::branch") and any(x is t for _, x in prov.slice(f, c.args[0]).calls) for c in f.calls())
            in_region = any(cfg.dominates(i.bb, t.bb) for i in inv) and not any(cfg.dominates(r.bb, t.bb) for r in rev)
            role = "keep" if keep and not req else "require" if req and not keep else "?"
            want = {("exports", "keep"): ("F", "S"), ("exports", "require"): ("S", "F"),
                    ("imports", "keep"): ("S", "F"), ("imports", "require"): ("F", "S")}.get((coll, role))
            ok = want is not None and d == want and (in_region == (coll == "imports"))
            n1 += 1
            ctx.ob("R09.1", "%s|%s|%s" % (name, coll, role), ok,
                   "%s loop: the %s test is is_subtype(%s) %s invert/revert" % (coll, role, "source, target" if d == ("F", "S") else "target, source", "inside" if in_region else "outside") if ok else
                   "%s loop: %s test has direction %s (expected %s), inverted region=%s" % (coll, role, d, want, in_region),
                   site="%s in %s" % (t.span, f.id))
            # the keep test dominates the require test of the same loop
        # keep precedes require: every require call is dominated by a keep call's false edge
        keeps = [t for t in in_loop if any((c.path or "").endswith("Result::is_ok") and any(x is t for _, x in prov.slice(f, c.args[0]).calls) for c in f.calls())]
        reqs = [t for t in in_loop if t not in keeps]
        for r in reqs:
            okd = any(cfg.dominates(k.bb, r.bb) for k in keeps)
            ctx.ob("R09.1", "%s|keep-before-require@%d" % (name, c10.ordinal(f, r)), okd,
                   "the requirement in the opposite direction is only evaluated after the keep test failed" if okd else
                   "the opposite direction is required without first testing whether the existing item already satisfies the contributor",
                   site="%s in %s" % (r.span, f.id))
    ctx.floor("R09.1", 12)
    ctx.floor("R09.2", 3)
    merge_targets(ctx, merges)

    check_highest(ctx)
    check_used_types(ctx)
    c10.semver_equality(ctx, "R09.6")
    # "fails exactly when two contributors require incompatible definitions": the checker the merges rely on does not
    # conflate kinds (C07 R07.5)
    import c07, engine
    c07.check_cross_kind(engine.AliasCtx(ctx, {"R07.5": "R09.2"}))


def search_completeness(ctx):
    """R09.3 `search-complete`: the aggregator's lookups of a semver-compatible existing entry (`find_semver_compatible_*`)
    examine *every* candidate: inside the search loop the only way out is "found" (`Some`); a `None` / `?` exit inside the
    loop gives up at the first candidate that has no semver track, and the later compatible entry is never merged or renamed."""
    db = ctx.db
    n = 0
    for f in sorted((f for f in db.fns.values() if f.id.startswith(AG + "find_") and "{closure" not in f.id), key=lambda x: x.id):
        ctx.touch(f)
        for nx, kinds in loop_exit_kinds(f):
            n += 1
            bad = sorted(k for k in kinds if k in ("None", "residual"))
            ctx.ob("R09.3", "search-complete|" + f.id.rsplit("::", 1)[1], not bad,
                   "the candidate loop is left early only with a match" if not bad else
                   "the candidate loop returns %s from inside the loop (%s): the search stops at the first entry without a semver track and a later compatible entry is missed"
                   % ("/".join(bad), kinds[bad[0]]), site="%s in %s" % (nx.span, f.id))
    ctx.ob("R09.3", "search-count", n >= 2, "semver-compatible search loops checked: %d" % n, nontrivial=False)


def check_highest(ctx):
    """R09.3 / R03.4 in TypeAggregator::aggregate."""
    db, prov = ctx.db, ctx.prov
    search_completeness(ctx)
    f = db.fn(AG + "aggregate")
    ctx.touch(f)
    cfg = CFG(f)
    cmps = [t for t in f.calls() if (t.declared or "").endswith(("PartialOrd::gt", "PartialOrd::lt", "PartialOrd::ge", "PartialOrd::le"))
            and "semver::Version" in " ".join(t.gen_args)]
    ctx.ob("R09.3", "anchor", len(cmps) == 1, "version comparisons in aggregate: %d" % len(cmps), nontrivial=False)
    if len(cmps) != 1:
        return
    t = cmps[0]
    name_param = 2
    l, r = prov.slice(f, t.args[0]), prov.slice(f, t.args[1])

    def from_new(sl):
        return any((x.path or "").endswith("alternate_lookup_key") and any(i == name_param for fid, i in narrow(prov, f, x.args[0]).params) for _, x in sl.calls)

    def from_existing(sl):
        return any((x.path or "").endswith("alternate_lookup_key") and not any(i == name_param for fid, i in narrow(prov, f, x.args[0]).params) for _, x in sl.calls)
    op = t.declared.rsplit("::", 1)[1]
    new_gt_existing = (op == "gt" and from_new(l) and from_existing(r)) or (op == "lt" and from_existing(l) and from_new(r))
    ctx.ob("R09.3", "comparison", new_gt_existing,
           "the renaming branch is taken when new_version > existing_version" if new_gt_existing else
           "the version comparison is `%s` with operands (%s, %s): the lower version would become canonical" % (op, "new" if from_new(l) else "existing", "new" if from_new(r) else "existing"),
           site="%s in %s" % (t.span, f.id))
    sw = switch_after(cfg, t)
    if sw is None:
        ctx.lost("R09.3", "switch on the version comparison")
        return
    tt, ft = true_false_targets(sw)

    def under(c, targets):
        return any(cfg.dominates(x, c.bb) for x in targets)

    def on(field, t_):
        return narrow(prov, f, t_.args[0]).has_field(field, "aggregator::TypeAggregator")
    rm = [c for c in f.calls() if (c.path or "").endswith(("IndexMap::shift_remove", "IndexMap::swap_remove")) and on("imports", c) and under(c, tt)]
    ins = [c for c in f.calls() if (c.path or "").endswith("IndexMap::insert") and on("imports", c) and under(c, tt)]
    ret = [c for c in f.calls() if (c.path or "").endswith(("HashMap::values_mut", "HashMap::iter_mut")) and on("name_redirects", c) and under(c, tt)]
    red_t = [c for c in f.calls() if (c.path or "").endswith("HashMap::insert") and on("name_redirects", c) and under(c, tt)]
    red_f = [c for c in f.calls() if (c.path or "").endswith("HashMap::insert") and on("name_redirects", c) and under(c, ft)]
    ctx.ob("R09.3", "rename-import", bool(rm) and bool(ins), "higher version: the old import entry is removed and the merged kind re-inserted under the new name" if rm and ins else
           "higher-version branch does not move the import entry to the new name", site=f.span)
    # the merged interface's own id follows the rename: the encoder names an interface that is pulled in as a *dependency*
    # (TypeEncoder::import_deps) by Interface::id, not by the aggregator's import name, so a stale id resurfaces as the
    # lower version whenever a user of the interface is encoded first
    idw = [st for st in f.stmts() if any(n == "id" and o.endswith("component::Interface") for n, o, v in st.lhs.fields()) and under(st, tt)]
    ok_id = any(any(i == name_param for fid, i in prov.slice(f, st.rv.ops[0] if st.rv.ops else st.rv.place).params) for st in idw if st.rv.ops or st.rv.place is not None)
    ctx.ob("R09.3", "rename-interface-id", ok_id,
           "higher version: the merged interface's id is set to the new canonical name" if ok_id else
           "the higher-version branch renames the import entry but leaves the merged Interface::id at the lower version: an interface that `use`s it and is "
           "encoded first imports it under the stale lower-version name (the shared import is then not named for the highest version, depending on creation order)",
           site=f.span)
    # … and the loop re-targets the redirects whose *target* (the map's value) is the old name — a comparison of the map's
    # key (the superseded name) with the old name never matches an existing redirect
    if ret:
        from c08 import origin_tuple_field
        okv = False
        whyv = "no comparison of a redirect with the old name found in the re-targeting loop"
        for c in f.calls():
            if not (c.declared or "").endswith(("PartialEq::eq", "PartialEq::ne")) or not under(c, tt):
                continue
            sides = [prov.slice(f, c.args[0]), prov.slice(f, c.args[1])]
            if not any(sl.has_call("find_semver_compatible_import") for sl in sides):
                continue
            for i, sl in enumerate(sides):
                if sl.has_call("find_semver_compatible_import"):
                    continue
                if sl.has_call("values_mut") or sl.has_call("values"):
                    okv = True
                elif sl.has_call("iter_mut") or sl.has_call("iter"):
                    k = origin_tuple_field(prov, f, c.args[i])
                    if k == "1":
                        okv = True
                    else:
                        whyv = "the re-targeting loop compares the redirect map's *key* (tuple field %s) with the old name, not the redirect target" % k
        ctx.ob("R09.3", "retarget-compares-target", okv,
               "redirects are re-targeted when their target equals the old name" if okv else
               whyv + ": with three versions on a track an earlier redirect keeps pointing at a name that is no longer an import (encode then panics looking it up)", site=f.span)
    ctx.ob("R09.3", "retarget-redirects", bool(ret), "higher version: existing redirects to the old name are re-targeted to the new canonical name" if ret else
           "higher-version branch leaves older redirects pointing at a name that is no longer an import (stale redirect chain)", site=f.span)

    def is_new(op_):
        sl = narrow(prov, f, op_)
        return any(i == name_param for fid, i in sl.params) and not sl.has_call("find_semver_compatible_import")

    def is_old(op_):
        return narrow(prov, f, op_).has_call("find_semver_compatible_import")
    ok_t = any(is_old(c.args[1]) and is_new(c.args[2]) for c in red_t)
    ok_f = any(is_new(c.args[1]) and is_old(c.args[2]) for c in red_f)
    ctx.ob("R09.3", "redirect-old-to-new", ok_t, "higher version: redirect old name -> new name" if ok_t else "higher-version branch does not add old->new", site=f.span)
    ctx.ob("R09.3", "redirect-new-to-existing", ok_f, "otherwise: redirect new name -> existing name" if ok_f else "lower-version branch does not add new->existing", site=f.span)
    # exact lookup before the semver lookup
    ex = [c for c in f.calls() if (c.path or "").endswith("IndexMap::get") and on("imports", c)]
    sv = [c for c in f.calls() if c.path == AG + "find_semver_compatible_import"]
    ok = bool(ex) and bool(sv) and all(any(cfg.dominates(e.bb, s.bb) for e in ex) for s in sv)
    ctx.ob("R09.3", "exact-before-semver", ok, "aggregate looks the exact name up before the semver-compatible scan" if ok else
           "the semver-compatible scan is not preceded by the exact lookup", site=f.span)


def check_used_types(ctx):
    """R09.4: the used interface is always unified (remap_interface on every non-error path of the loop body),
    guarded by the semver-compatibility and export-name checks for an existing use."""
    db, prov = ctx.db, ctx.prov
    n = 0
    for f in db.fns.values():
        if not (f.id.startswith(AG + "merge_") and f.id.endswith("_used_types")):
            continue
        n += 1
        ctx.touch(f)
        cfg = CFG(f)
        name = f.id.rsplit("::", 1)[1]
        nexts = [t for t in f.calls() if (t.path or "").endswith("::next") and cfg.reaches(t.bb, t.bb)]
        remaps = [t for t in f.calls() if t.path == AG + "remap_interface"]
        ok = False
        for nx in nexts:
            if nx.target is None:
                continue
            sw = cfg.blocks[nx.target].term
            if sw.k != "switch":
                continue
            some = [tg for v, tg in sw.j["targets"] if v == 1]
            for s in some:
                if remaps and cfg.must_pass([r.bb for r in remaps], src=s, dsts={nx.bb}, cut=error_blocks(f)):
                    ok = True
        ctx.ob("R09.4", "always-unify|" + name, ok,
               "every non-error iteration remaps (and thereby merges) the used interface" if ok else
               "an iteration can skip remap_interface: the contributor's copy of a used interface is not merged when the use already exists",
               site=f.span)
        sem = [t for t in f.calls() if (t.path or "").endswith("names::are_semver_compatible")]
        ok2 = bool(sem) and all(any(cfg.dominates(t.bb, r.bb) or True for r in remaps) for t in sem)
        # the negated result guards a bail!: the false edge of the switch leads to an error block
        guarded = False
        for t in sem:
            sw = switch_after(cfg, t)
            if sw is not None:
                tt, ft = true_false_targets(sw)
                errs = error_blocks(f)
                if any(cfg.reach_from(x) & errs and not (cfg.reach_from(x, cut=errs) & {r.bb for r in remaps}) for x in ft):
                    guarded = True
        ctx.ob("R09.4", "semver-guard|" + name, guarded,
               "an existing use from an incompatible interface version is rejected" if guarded else
               "existing uses are not checked for semver compatibility of their interfaces before merging", site=f.span)
        ne = [t for t in f.calls() if (t.declared or "").endswith(("PartialEq::ne", "PartialEq::eq")) and
              prov.slice(f, t.args[0]).has_field("name", "component::UsedType") and prov.slice(f, t.args[1]).has_field("name", "component::UsedType")]
        ctx.ob("R09.4", "name-guard|" + name, bool(ne), "an existing use with a different export name is rejected" if ne else
               "the export names of an existing and a new use are not compared", site=f.span)
    ctx.ob("R09.4", "count", n == 2, "used-type merge functions: %d" % n, nontrivial=False)


def import_names_own_side(ctx, rule="R09.1"):
    """names under which the aggregator records an import on its own initiative (the owning interface of a used resource, …)
    are read from the aggregator's *unified* types (`self.types`), where a merged interface carries the canonical
    (highest-version) id — not from the contributor's collection, where the same interface still has the contributor's
    version: the latter re-introduces a second import on the same semver track, depending on contributor order."""
    db, prov = ctx.db, ctx.prov
    n = 0
    for f in sorted(db.fns.values(), key=lambda x: x.id):
        if not f.id.startswith(AG) or f.id.startswith(AG + "aggregate") or f.from_expansion:
            continue
        for t in f.calls():
            if not ((t.path or "").endswith(("IndexMap::insert", "IndexMap::entry")) and narrow(prov, f, t.args[0]).has_field("imports", "aggregator::TypeAggregator")):
                continue
            n += 1
            ctx.touch(f)
            ks = narrow(prov, f, t.args[1])      # the chain of borrows / clones / index / field reads that yields the name itself
            sides = set()
            for g, c in ks.calls:
                if (c.path or "").startswith("wac_types::<component::Types as core::ops::index::Index<"):
                    gf = g if not isinstance(g, str) else db.fns.get(g)
                    rs = prov.slice(gf, c.args[0], stop_call=lambda tt: (tt.path or "").endswith("TypeAggregator::types"))
                    own = rs.has_field("types", "aggregator::TypeAggregator") or rs.has_call("TypeAggregator::types")
                    foreign = any(db.fns.get(fid) is not None and 0 < i < len(db.fns[fid].locals) and db.fns[fid].locals[i].endswith("component::Types") and db.fns[fid].locals[i].startswith("&")
                                  for fid, i in rs.params)
                    sides.add("S" if own and not foreign else "F" if foreign and not own else "?")
            ok = sides <= {"S"} and bool(sides)
            ctx.ob(rule, "import-name-own-side|%s" % re.sub(r"(::\{closure#\d+\})+$", "", f.id).rsplit("::", 1)[-1], ok,
                   "the recorded import name is read from the aggregator's own (unified) types" if ok else
                   "an import is recorded under a name read from %s: the contributor's version of a merged interface becomes a second import on the same semver track" % (
                       "the contributor's type collection" if "F" in sides else "an undetermined collection"),
                   site="%s in %s" % (t.span, f.id))
    ctx.ob(rule, "import-name-sites", n >= 1, "imports recorded outside aggregate(): %d" % n, nontrivial=False)


def merge_totality(ctx, merges, rule="R09.1"):
    """every element of a contributor's exports/imports is either checked against the existing entry or inserted: no
    iteration of a merge loop over a foreign `exports`/`imports` map can come back to the loop head without having passed
    is_subtype / a nested merge / an insert into the aggregated map (a `continue` that skips an entry drops that entry from
    the union — the merged type then no longer satisfies the contributor)."""
    db, prov = ctx.db, ctx.prov
    n = 0
    for f in sorted(merges, key=lambda x: x.id):
        cfg = CFG(f)
        name = f.id.rsplit("::", 1)[1]
        errs = error_blocks(f)
        for nx in f.calls():
            if not (nx.path or "").endswith("::next") or nx.target is None or not cfg.reaches(nx.bb, nx.bb):
                continue
            rs = prov.slice(f, nx.args[0])
            coll = sorted(x for x in ("exports", "imports") if rs.has_field(x))
            tp = types_param(f)
            foreign = tp is not None and any(i == tp for fid, i in rs.params if fid == f.id)
            if not coll or not foreign:
                continue
            sw = cfg.blocks[nx.target].term
            if sw.k != "switch":
                continue
            some = [tg for v, tg in sw.j["targets"] if v == 1]
            if not some:
                continue
            acts = [t.bb for t in f.calls() if cfg.reaches(t.bb, nx.bb) and (
                (t.path or "") in (CK + "is_subtype", CK + "core_extern") or (t.path or "").startswith(AG + "merge_") or (t.path or "").startswith(AG + "remap_")
                or ((t.path or "").endswith("IndexMap::insert") and narrow(prov, f, t.args[0]).has_field("types", "aggregator::TypeAggregator")))]
            n += 1
            ok = bool(acts) and cfg.must_pass(acts, src=some[0], dsts={nx.bb}, cut=errs)
            ctx.ob(rule, "every-entry|%s|%s" % (name, "/".join(coll)), ok,
                   "every %s entry of the contributor is checked, merged or inserted" % "/".join(coll) if ok else
                   "an iteration over the contributor's %s can return to the loop head without checking, merging or inserting the entry: that entry is dropped from the merged type" % "/".join(coll),
                   site="%s in %s" % (nx.span, f.id))
    ctx.ob(rule, "every-entry-count", n >= 4, "merge loops over a contributor's exports/imports: %d" % n, nontrivial=False)


def merge_targets(ctx, merges, rule="R09.1"):
    merge_totality(ctx, merges, rule)
    import_names_own_side(ctx, rule)
    """the item merged from `types[id].<coll>` is inserted into `self.types[existing].<coll>` — the same collection."""
    db, prov = ctx.db, ctx.prov
    n = 0
    for f in sorted(merges, key=lambda x: x.id):
        cfg = CFG(f)
        name = f.id.rsplit("::", 1)[1]
        for t in f.calls():
            if not ((t.path or "").endswith("IndexMap::insert") and cfg.reaches(t.bb, t.bb)):
                continue
            rs = narrow(prov, f, t.args[0])
            if not rs.has_field("types", "aggregator::TypeAggregator"):
                continue
            dst = {x for x in ("imports", "exports", "uses") if rs.has_field(x)}
            ks = prov.slice(f, t.args[1])
            src = {x for x in ("imports", "exports", "uses") if ks.has_field(x) and ks.has_call("::next")}
            # the key comes from iterating the foreign collection: its field tells which list is being merged
            tp = types_param(f)
            if not src or len(dst) != 1:
                continue
            n += 1
            ok = dst <= src and len(src) == 1
            ctx.ob(rule, "%s|insert-into-%s" % (name, "/".join(sorted(dst))), ok,
                   "items merged from the contributor's `%s` are inserted into the aggregate's `%s`" % ("/".join(sorted(src)), "/".join(sorted(dst))) if ok else
                   "items taken from the contributor's `%s` are inserted into the aggregate's `%s` (copy/paste between the two loops): the merged type loses them" % ("/".join(sorted(src)), "/".join(sorted(dst))),
                   site="%s in %s" % (t.span, f.id))
    ctx.ob(rule, "merge-insert-count", n >= 6, "merge-loop inserts checked: %d" % n, nontrivial=False)
