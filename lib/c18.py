"""C18 — file-system dependency lookup follows the documented layout and precedence (weak claim)."""
from cfg import CFG, error_blocks
from prov import narrow
from pat import *
from facts import strip_generics

EXPLANATION = ("structural rules over the MIR of FileSystemPackageResolver::resolve and PackageResolver::resolve: path segments come from "
               "splitting the package name at every ':', the version component is pushed on the Some edge only, the extension is "
               "appended (never set) before any replacement, overrides apply only to unversioned keys and a dangling override is an "
               "error in both modes, UnknownPackage is returned exactly under error_on_unknown after the file test failed, inserted "
               "bytes come from the file read / WIT encoding under the loop's own key, and resolved keys are filtered by full key. "
               "Necessary conditions; the decision table over real directory states is not decided")

FS = "wac_resolver::fs::FileSystemPackageResolver::resolve"


class WatCtx:
    """second pass over the facts extracted with `--features wat`: the path-building rules are re-decided for the
    configuration in which the `.wat` branch exists (keys prefixed `wat:`)."""
    wat_pass = True

    def __init__(self, ctx, db2):
        from prov import Prov
        self.ctx, self.db, self.prov = ctx, db2, Prov(db2)
        self.repo_root = getattr(ctx, "repo_root", None)

    def ob(self, rule, key, ok, why, **kw):
        if rule in ("R18.1", "R18.2", "R18.5"):
            return self.ctx.ob(rule, "wat:" + key, ok, why, **kw)

    def touch(self, f):
        pass

    def floor(self, rule, n):
        pass

    def lost(self, rule, what):
        self.ctx.lost(rule, "wat: " + what)


def run(ctx):
    run_config(ctx)
    if not getattr(ctx, "wat_pass", False):
        import engine, facts
        try:
            fd2 = engine.ensure_facts("wat", repo=getattr(ctx, "repo_root", None))
        except SystemExit as e:
            ctx.lost("R18.2", "facts for the `wat` feature could not be extracted: %s" % e)
            return
        w = WatCtx(ctx, facts.DB(fd2))
        run_config(w)
        has = any(o["key"].startswith("wat:wat-preferred") or "wat:wat-preferred" in o["key"] for o in ctx.obs)
        ctx.ob("R18.2", "wat-config", has, "the `.wat` preference was decided on the facts of the `wat` feature build" if has else
               "no `.wat` probing code found in the `wat` feature build", nontrivial=False)


def run_config(ctx):
    db, prov = ctx.db, ctx.prov
    f = db.fn(FS)
    bodies = db.with_closures(f)
    for b in bodies:
        ctx.touch(b)
    cfg = CFG(f)

    # ---- R18.1 segments and version
    splits = [t for t in f.calls() if (t.path or "").startswith("core::str::") and t.path.rsplit("::", 1)[1] in
              ("split", "split_once", "splitn", "rsplit", "rsplitn", "rsplit_once", "split_terminator", "split_inclusive")]
    ok = False
    why = "no `name.split(':')` feeding PathBuf::push found"
    for t in splits:
        m = t.path.rsplit("::", 1)[1]
        rs = prov.slice(f, t.args[0])
        pat = t.args[1].const_value() if len(t.args) > 1 else None
        if rs.has_field("name", "BorrowedPackageKey"):
            if m == "split" and pat == ("char", ord(":")):
                pushes = [p for p in f.calls() if (p.path or "").endswith("PathBuf::push") and any(x is t for _, x in prov.slice(f, p.args[1]).calls) and cfg.reaches(p.bb, p.bb)]
                if pushes:
                    ok = True
                    why = "every ':'-separated segment of the package name is pushed as a directory component"
            else:
                ok = False
                why = "the package name is split with `%s` (pattern %s): names with three or more segments are not mapped to nested directories" % (m, pat)
                break
    ctx.ob("R18.1", "segments", ok, why, site=f.span)
    vp = [p for p in f.calls() if (p.path or "").endswith("PathBuf::push") and prov.slice(f, p.args[1]).has_field("version", "BorrowedPackageKey")]
    okv = False
    for p in vp:
        # dominated by the Some edge of a switch on key.version's discriminant
        for b in f.blocks:
            if b.term.k == "switch":
                from facts import Operand
                sl = prov.slice(f, Operand(b.term.j["discr"]))
                if sl.has_field("version", "BorrowedPackageKey"):
                    some = [tg for v, tg in b.term.j["targets"] if v == 1]
                    if any(cfg.dominates(x, p.bb) for x in some):
                        okv = True
    ctx.ob("R18.1", "version-component", okv, "`<version>` is pushed as a further component exactly when the key has a version" if okv else
           "the version component is not pushed on the Some(version) edge", site=f.span)

    # ---- R18.2 append before replace
    appends = [t for t in f.calls() if t.path == "wac_resolver::fs::append_extension"]
    sets = [t for t in f.calls() if (t.path or "").endswith(("PathBuf::set_extension", "Path::with_extension", "PathBuf::with_extension"))]
    ctx.ob("R18.2", "append", len(appends) >= 1 and all(prov.const_of(f, t.args[1]) == ("str", "wasm") for t in appends),
           "the `.wasm` extension is appended (never replaces a version's last component): %d site(s)" % len(appends), site=f.span)
    for t in sets:
        ok2 = any(cfg.dominates(a.bb, t.bb) for a in appends)
        ctx.ob("R18.2", "set-after-append@%d" % ordinal(f, t), ok2,
               "set_extension only replaces an extension that append_extension added" if ok2 else
               "set_extension on a path whose last component may be a version (`0.0.1` would lose `.1`)", site="%s in %s" % (t.span, f.id))
    # `.wat` is preferred: the text extension is tried first (unconditionally after the append) and `.wasm` is the fallback on
    # the does-not-exist edge of the test that follows
    wat = [t for t in sets if prov.const_of(f, t.args[1]) == ("str", "wat")]
    wasm = [t for t in sets if prov.const_of(f, t.args[1]) == ("str", "wasm")]
    if wat or wasm:
        exists = [t for t in f.calls() if (t.path or "").endswith(("Path::exists", "Path::is_file", "Path::try_exists")) and any(cfg.dominates(a.bb, t.bb) for a in appends)]
        okw = bool(wat) and bool(exists)
        whyw = "no `.wat` probe found"
        for w in wat:
            pre = [e for e in exists if cfg.dominates(e.bb, w.bb)]
            post = [e for e in exists if cfg.dominates(w.bb, e.bb)]
            if pre:
                okw = False
                whyw = "the `.wat` candidate is only tried when an earlier existence test (of the `.wasm` path) fails: a `.wasm` next to the `.wat` wins"
            elif not post:
                okw = False
                whyw = "the `.wat` candidate is not followed by an existence test"
            else:
                for z in wasm:
                    guarded = False
                    for e in post:
                        sw = switch_after(cfg, e)
                        if sw is not None:
                            tt, ft = true_false_targets(sw)
                            if any(cfg.dominates(x, z.bb) for x in ft) and not any(cfg.dominates(x, z.bb) for x in tt):
                                guarded = True
                    if not guarded:
                        okw = False
                        whyw = "the `.wasm` fallback is not taken exactly when the `.wat` file does not exist"
        ctx.ob("R18.2", "wat-preferred", okw, "with text support `.wat` is tried first and `.wasm` only when it does not exist" if okw else whyw, site=f.span)
    # the extension is appended exactly when the candidate is not a *directory* (a directory is a WIT package; anything else —
    # including a stray extension-less file — is not the package, `<name>.wasm` is)
    for a in appends:
        guard = None
        for b in f.blocks:
            if b.term.k == "switch" and cfg.dominates(b.idx, a.bb):
                sl = prov.slice(f, Operand(b.term.j["discr"]))
                probes = sorted({(c.path or "").rsplit("::", 1)[-1] for _, c in sl.calls if "path::Path" in (c.path or "") and (c.path or "").rsplit("::", 1)[-1] in ("is_dir", "exists", "is_file", "try_exists", "metadata")})
                if probes:
                    guard = probes
        ctx.ob("R18.2", "append-unless-directory", guard == ["is_dir"],
               "the extension is appended unless the candidate path is a directory" if guard == ["is_dir"] else
               "the extension is appended depending on %s instead of `is_dir`: an extension-less regular file at `<deps>/ns/name` shadows `name.wasm` (or makes a missing package look present)" % (guard or "no file-system test"),
               site="%s in %s" % (a.span, f.id))
    # text support: whether a file is parsed as WAT is decided from the final path's extension, wherever the path came from
    # (deps directory or `--dep` override)
    wp = [t for t in f.calls() if (t.path or "").startswith("wat::") and (t.path or "").rsplit("::", 1)[-1] in ("parse_bytes", "parse_file", "parse_str")]
    for t in wp:
        okx = False
        for b in f.blocks:
            if b.term.k == "switch" and cfg.dominates(b.idx, t.bb):
                sl = prov.slice(f, Operand(b.term.j["discr"]))
                if sl.has_call("Path::extension"):
                    okx = True
        ctx.ob("R18.2", "wat-by-extension", okx, "a file is parsed as text when its path ends in `.wat`" if okx else
               "whether the file is parsed as WAT does not depend on the path's extension: a `.wat` file reached another way (an override) is returned as raw text bytes",
               site="%s in %s" % (t.span, f.id))
    # per-key parser state: a WIT `Resolve` accumulates every package pushed into it, so it is created inside the per-key loop
    rn = [t for t in f.calls() if (t.path or "").endswith("wit_parser::resolve::Resolve::new") or (t.path or "").endswith("Resolve::new") and "wit_parser" in (t.path or "")]
    if rn:
        okn = all(cfg.reaches(t.bb, t.bb) for t in rn)
        ctx.ob("R18.5", "fresh-wit-resolve", okn, "a fresh wit_parser::Resolve is created for every key" if okn else
               "one wit_parser::Resolve is shared by all keys of a call: what a WIT directory resolves to then depends on the packages loaded for earlier keys "
               "(two dependencies vendoring the same package cannot be loaded together; a missing dependency is silently satisfied by an earlier key)",
               site="%s in %s" % (rn[0].span, f.id))
    # append_extension itself must append
    ae = db.fns.get("wac_resolver::fs::append_extension")
    if ae is None:
        ctx.lost("R18.2", "append_extension")
    else:
        pushes = [t for t in ae.calls() if (t.path or "").endswith("OsString::push")]
        bad = [t for t in ae.calls() if (t.path or "").endswith(("set_extension", "with_extension"))]
        ctx.ob("R18.2", "append-impl", len(pushes) >= 2 and not bad, "append_extension pushes '.' and the extension onto the OsString" if len(pushes) >= 2 and not bad else
               "append_extension no longer appends", site=ae.span)

    # ---- R18.3 overrides
    ov = [t for t in f.calls() if (t.path or "").endswith("HashMap::get") and narrow(prov, f, t.args[0]).has_field("overrides", "FileSystemPackageResolver")]
    ctx.ob("R18.3", "anchor", len(ov) == 1, "override lookups: %d" % len(ov), nontrivial=False)
    fail = []
    for s in f.stmts():
        if s.rv.k == "agg" and s.rv.j.get("variant") == "PackageResolutionFailure":
            fail.append(s)
    for t in ov:
        key_ok = prov.slice(f, t.args[1]).has_field("name", "BorrowedPackageKey")
        ctx.ob("R18.3", "override-key", key_ok, "overrides are looked up by package name" if key_ok else "override lookup key is not the package name", site=t.span)
        # the override clone (use of the hit) is dominated by `key.version.is_none()`
        isn = [c for c in f.calls() if (c.path or "").endswith("Option::is_none") and prov.slice(f, c.args[0]).has_field("version", "BorrowedPackageKey")]
        clones = [c for c in f.calls() if (c.path or "").endswith("Clone>::clone") and any(x is t for _, x in prov.slice(f, c.args[0]).calls)]
        okn = False
        for c in isn:
            sw = switch_after(cfg, c)
            if sw is not None:
                tt, ft = true_false_targets(sw)
                if clones and all(any(cfg.dominates(x, cl.bb) for x in tt) for cl in clones):
                    okn = True
        ctx.ob("R18.3", "unversioned-only", okn, "the override path is used only when the key has no version" if okn else
               "the override path can be used for versioned keys (or the version test is missing)", site=t.span)
        # dangling override: the is_file test on the override path leads to an error, guarded by nothing else
        isf = [c for c in f.calls() if (c.path or "").endswith("Path::is_file") and any(x is t for _, x in prov.slice(f, c.args[0]).calls)]
        okd = False
        whyd = "no `is_file` test on the override path"
        for c in isf:
            sw = switch_after(cfg, c)
            if sw is None:
                continue
            tt, ft = true_false_targets(sw)
            errs = [s for s in fail if any(cfg.dominates(x, s.bb) for x in ft)]
            if errs:
                # no other condition between: the false target itself (or a straight line from it) builds the error
                guards = guards_between(ctx, f, cfg, c.bb, errs[0].bb)
                extra = [g for g in guards if g != cfg.blocks[c.target].idx]
                bad = [g for g in extra if reads_field(ctx, f, cfg.blocks[g].term, "error_on_unknown")]
                okd = not bad
                whyd = "a dangling override is an error regardless of the unknown-package mode" if okd else \
                    "the dangling-override error is additionally guarded by `error_on_unknown`: in lenient mode a dangling --dep path is silently skipped"
        ctx.ob("R18.3", "dangling-override", okd, whyd, site=t.span)

    # ---- R18.4 UnknownPackage exactly under error_on_unknown after the file test failed
    unk = [s for s in f.stmts() if s.rv.k == "agg" and s.rv.j.get("variant") == "UnknownPackage"]
    ctx.ob("R18.4", "anchor", len(unk) == 1, "UnknownPackage sites: %d" % len(unk), nontrivial=False)
    for s in unk:
        ok4 = False
        for b in f.blocks:
            if b.term.k == "switch" and reads_field(ctx, f, b.term, "error_on_unknown"):
                tt, ft = true_false_targets(b.term)
                if any(cfg.dominates(x, s.bb) for x in tt) and not any(cfg.dominates(x, s.bb) for x in ft):
                    # and that switch sits on the false edge of an is_file test
                    for c in f.calls():
                        if (c.path or "").endswith("Path::is_file"):
                            sw = switch_after(cfg, c)
                            if sw is not None:
                                t2, f2 = true_false_targets(sw)
                                if any(cfg.dominates(x, b.idx) for x in f2):
                                    ok4 = True
        ctx.ob("R18.4", "unknown-mode", ok4, "a missing file is reported as UnknownPackage exactly when error_on_unknown is set, otherwise skipped" if ok4 else
               "UnknownPackage is not guarded by (file missing AND error_on_unknown)", site=s.span)

    # ---- R18.5 inserted bytes
    ins = [t for t in f.calls() if (t.path or "").endswith("IndexMap::insert")]
    ctx.ob("R18.5", "anchor", len(ins) >= 2, "package inserts: %d" % len(ins), nontrivial=False)
    for t in ins:
        vs = prov.slice(f, t.args[2])
        ks = narrow(prov, f, t.args[1])
        src = vs.has_call("std::fs::read") or vs.has_call("wit_component::encoding::wit::encode") or vs.has_call("wit_component::encode") or vs.has_call("wat::parse_bytes")
        key_loop = ks.has_call("::next") or any((x.path or "").endswith("::next") for _, x in prov.slice(f, t.args[1]).calls)
        ctx.ob("R18.5", "bytes@%d" % ordinal(f, t), src and key_loop,
               "the bytes stored for a key are the file's content (or its WIT/WAT encoding) and the key is the loop's key" if src and key_loop else
               "stored bytes do not originate in fs::read / wit encode of the key's path (src=%s key=%s)" % (src, key_loop), site="%s in %s" % (t.span, f.id))

    check_cli_resolver(ctx)


def guards_between(ctx, f, cfg, a, b):
    """switch blocks on some path a ->* b (excluding b's own)"""
    out = []
    reach_a = cfg.reach_from(a)
    for blk in f.blocks:
        if blk.term.k == "switch" and blk.idx in reach_a and cfg.dominates(blk.idx, b) and blk.idx != a:
            out.append(blk.idx)
    return out


def reads_field(ctx, f, term, field):
    from facts import Operand
    if term.k != "switch":
        return False
    return ctx.prov.slice(f, Operand(term.j["discr"])).has_field(field)


def check_cli_resolver(ctx):
    """R18.6: PackageResolver::resolve filters resolved keys by the full (name, version) key and reports what is left."""
    db, prov = ctx.db, ctx.prov
    outer = [f for f in db.fns.values() if f.id.startswith("wac_cli::PackageResolver::resolve")]
    ctx.ob("R18.6", "anchor", len(outer) >= 2, "PackageResolver::resolve bodies: %d" % len(outer), nontrivial=False)
    n = 0
    for f in outer:
        ctx.touch(f)
        for t in f.calls():
            if not (t.path or "").endswith("IndexMap::retain"):
                continue
            for fa in t.fnargs:
                c = db.fns.get(strip_generics(fa))
                if c is None:
                    continue
                n += 1
                ctx.touch(c)
                ck = [x for x in c.calls() if (x.path or "").endswith(("IndexMap::contains_key", "IndexMap::get"))]
                full = bool(ck) and all(not prov.slice(c, x.args[1], follow_closures=False).has_field("name", "BorrowedPackageKey") for x in ck)
                other = [x.path for x in c.calls() if (x.path or "").endswith(("HashSet::contains", "HashMap::contains_key", "PartialEq>::eq"))]
                reads_name = any(("name", o, v) in set(pl.fields()) for s in c.stmts() for pl in [s.rv.place] + [o_.place for o_ in s.rv.ops] if pl is not None
                                 for (_, o, v) in pl.fields() if o.endswith("BorrowedPackageKey"))
                ok = full and not other and not reads_name
                ctx.ob("R18.6", "filter-by-key@%d" % n, ok,
                       "resolved keys are removed by looking the *whole* key (name and version) up in the resolved set" if ok else
                       "resolved keys are filtered by package name only: a missing version of a package whose other version was found is neither reported nor looked up further",
                       site="%s in %s" % (t.span, f.id))
    ctx.ob("R18.6", "count", n >= 1, "retain filters inspected: %d" % n, nontrivial=False)
    # the overrides the caller passes are the overrides the file-system resolver gets: nothing on the way may drop or
    # rewrite entries (a `--dep` whose path is missing must reach the resolver, which reports it)
    for f in db.fns.values():
        if not f.id.startswith("wac_cli::PackageResolver::new"):     # (an async fn: the body is its coroutine `{closure#0}`)
            continue
        ctx.touch(f)
        for t in f.calls():
            if not (t.path or "").endswith("fs::FileSystemPackageResolver::new"):
                continue
            for i, a in enumerate(t.args):
                if a.place is None or "HashMap" not in f.local_ty(a.place.local):
                    continue
                sl = prov.slice(f, a)
                narrowed = sorted({(x.path or "").rsplit("::", 1)[-1] for _, x in sl.calls} & {"filter", "filter_map", "retain", "skip", "take", "flat_map", "take_while", "skip_while", "remove", "drain", "extract_if"})
                rebuilt = sorted({(x.path or "").rsplit("::", 1)[-1] for _, x in sl.calls} & {"collect", "from_iter", "into_iter", "iter", "extend", "insert"})
                direct = not rebuilt
                ctx.ob("R18.6", "overrides-passed-through", direct and not narrowed,
                       "the override map handed to PackageResolver::new reaches FileSystemPackageResolver::new unchanged" if direct and not narrowed else
                       "the override map is %s before it reaches the file-system resolver: an override that should be an error (missing path) silently disappears and another copy of the package is used"
                       % ("narrowed by " + "/".join(narrowed) if narrowed else "rebuilt (%s)" % "/".join(rebuilt)), site="%s in %s" % (t.span, f.id))
    # whatever is left is reported as unknown
    okl = False
    for f in outer:
        for s in f.stmts():
            if s.rv.k == "agg" and s.rv.j.get("variant") == "UnknownPackage":
                okl = True
    ctx.ob("R18.6", "leftover-unknown", okl, "keys left unresolved are reported as UnknownPackage" if okl else "unresolved keys are not reported")


def ordinal(f, t):
    k = 0
    for c in f.calls():
        if c is t:
            return k
        if c.path == t.path:
            k += 1
    return k
