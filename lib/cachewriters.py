"""who-may-write rule for the encoder's index caches (Scope::{type_indexes,instances,resources,type_aliases},
State::{packages,node_indexes,implicit_args}): the functions that insert into each cache are a reviewed, closed set
(specs/cache_writers.json).  A cache entry is a promise "this item is already encoded at index i in this scope"; a new
writer in a function that was reviewed as a non-writer (e.g. remembering a *types-only* instance type under the
interface's key) poisons later lookups.  New helper functions are analysed inlined into their callers (facts.DB), so an
extract-function refactoring does not change the writer set."""
import json, os, re
import engine
from prov import narrow

SPEC = os.path.join(engine.VERIF, "specs", "cache_writers.json")
OWNERS = ("wac_graph::encoding::Scope", "wac_graph::encoding::State")
WRITES = ("insert", "entry", "extend", "insert_full", "push")


def writers(ctx):
    db, prov = ctx.db, ctx.prov
    out = {}
    for f in db.fns.values():
        if f.crate != "wac_graph" or f.from_expansion:
            continue
        for t in f.calls():
            p = t.path or ""
            if p.rsplit("::", 1)[-1] not in WRITES or not ("IndexMap" in p or "HashMap" in p or "IndexSet" in p or "HashSet" in p or "Vec" in p):
                continue
            recv = narrow(prov, f, t.args[0])
            flds = sorted({"%s::%s" % (o.split("::")[-1], n) for n, o, v in recv.fields if o in OWNERS and n not in ("current", "scopes")})
            if len(flds) != 1:
                continue
            host = re.sub(r"(::\{closure#\d+\})+$", "", f.id)
            out.setdefault(flds[0], {}).setdefault(host, t.span)
    return out


def check(ctx, rule):
    if not os.path.exists(SPEC):
        ctx.lost(rule, "specs/cache_writers.json")
        return
    spec = json.load(open(SPEC))["writers"]
    cur = writers(ctx)
    n = 0
    for cache in sorted(set(spec) | set(cur)):
        allowed = set(spec.get(cache, []))
        for host, span in sorted(cur.get(cache, {}).items()):
            n += 1
            ok = host in allowed
            ctx.ob(rule, "writer|%s|%s" % (cache, host.split("::", 1)[1]), ok,
                   "reviewed writer of %s" % cache if ok else
                   "%s now writes the encoder cache %s (reviewed writers: %s): an entry recorded here is trusted by every later lookup of that key in the scope" % (
                       host.split("::", 1)[1], cache, ", ".join(sorted(x.rsplit("::", 1)[-1] for x in allowed)) or "none"),
                   site="%s in %s" % (span, host))
    ctx.ob(rule, "writer-count", n >= 12, "cache write sites attributed: %d" % n, nontrivial=False)


if __name__ == "__main__":
    import sys, facts, prov as pm
    db = facts.DB(engine.ensure_facts())

    class C:
        pass
    c = C()
    c.db, c.prov = db, pm.Prov(db)
    w = writers(c)
    json.dump({"_doc": "reviewed writers of the encoder's index caches (lib/cachewriters.py); regenerate with `python3 lib/cachewriters.py` after reviewing a change",
               "writers": {k: sorted(v) for k, v in sorted(w.items())}}, open(SPEC, "w"), indent=1)
    for k, v in sorted(w.items()):
        print(k, sorted(x.rsplit("::", 1)[-1] for x in v))
