"""C01 — every encoded composition is valid; no late validation failures (structural part)."""
from collections import defaultdict, deque
from cfg import CFG, error_blocks
from prov import narrow
from pat import *
from facts import Operand, strip_generics

EXPLANATION = ("structural rules over the MIR of wac-graph's encoder: (R01.1) every index captured from a type/instance/core-type "
               "counter is captured immediately before the emission it numbers — no emitting call lies between the capture and the "
               "emission, and the counter matches the emission's index space; (R01.2) State::push/pop are balanced on every path and "
               "use-alias tables are reset unconditionally; (R01.3) imports, nodes, exports, names and finish are emitted in dominance "
               "order from the topological sort; (R01.4) the argument edge is added only after the subtype check (with a sound memo) "
               "and the already-passed scan; (R01.6) type-dependency edges point from the referenced definition to the referencing "
               "one. Necessary conditions of 'indexes refer to what was emitted'; validity of every output is not decided")

ENC = "wac_graph::encoding::"
GR = "wac_graph::graph::"
COUNTS = {"type_count": "type", "instance_count": "instance", "core_type_count": "core_type"}


def emit_primitives(db):
    """callee paths that append an item to an index space of the current encodable."""
    prim = {}
    for k in db.fns:
        if k.startswith(ENC + "Encodable::") and k.rsplit("::", 1)[1] in ("ty", "core_type", "import_type", "alias"):
            prim[k] = k.rsplit("::", 1)[1]
    prim[ENC + "TypeEncoder::export_type"] = "export_type"
    return prim


def is_foreign_emit(p):
    """wasm-encoder calls that append to an index space."""
    if not p.startswith("wasm_encoder::"):
        return None
    m = p.rsplit("::", 1)[1]
    owner = p.rsplit("::", 2)[-2]
    if owner in ("ComponentBuilder", "ComponentType", "InstanceType", "ModuleType") and m in (
            "ty", "core_type", "import", "export", "alias", "instantiate", "component_raw", "component", "instance", "type_defined", "function", "defined_type"):
        return m
    return None


def emitting_fns(db, prim):
    """local functions that may (transitively) emit."""
    out = set(prim)
    for f in db.fns.values():
        if f.crate == "wac_graph" and any(is_foreign_emit(t.path or "") for t in f.calls()):
            out.add(f.id)
    changed = True
    while changed:
        changed = False
        for f in db.fns.values():
            if f.crate != "wac_graph" or f.id in out:
                continue
            if any(c in out for c in db.callees(f, include_fn_operands=False)):
                out.add(f.id)
                changed = True
    return out


def run(ctx):
    index_capture(ctx)
    scope_pairing(ctx)
    alias_reset(ctx)
    emission_order(ctx)
    dependency_edges(ctx)
    # cross references
    import c07
    c07.check_memo(ctx_alias(ctx, "R01.4"))
    c07.check_use_site(ctx_alias(ctx, "R01.4"))
    import engine
    c07.run(engine.AliasCtx(ctx, {"R07.2": "R01.4"}))
    import c06
    c06.check_edge_selection(ctx_alias(ctx, "R01.7"), [f for f in ctx.db.fns.values() if f.crate == "wac_graph"])
    validator_features(ctx)
    # instance / resource bookkeeping of the type encoder (C08 R08.10, C14 R14.8): a duplicate or mis-named import is a late
    # validation failure
    import c08, c14
    a = engine.AliasCtx(ctx, {"R08.10": "R01.3", "R14.8": "R01.3"})
    c08.instance_registration(a)
    c08.resource_alias_names(a)
    c14.check_key_agreement(a)


def forwarding_wrappers(ctx, rule="R01.1"):
    """the `Encodable` wrappers forward each query/emission to the method of the same name of whichever encoder is wrapped
    (builder, component type, instance type): every arm of every wrapper calls its namesake — a counter read from another
    index space (`type_count` for `core_type_count`) numbers the next item wrongly in that one scope kind only."""
    import tables
    db, prov = ctx.db, ctx.prov
    names = {"import_type": "import"}
    n = 0
    for f in sorted(db.fns.values(), key=lambda x: x.id):
        if not f.id.startswith(ENC + "Encodable::") or "{closure" in f.id:
            continue
        m = f.id.rsplit("::", 1)[-1]
        rows = [(v, c, sp) for a, v, c, sp in tables.enum_to_callee(db, prov, f, "wasm_encoder::") if a.endswith("encoding::Encodable")]
        if len(rows) < 2:
            continue
        ctx.touch(f)
        for v, c, sp in rows:
            n += 1
            want = names.get(m, m)
            ctx.ob(rule, "forward|Encodable::%s|%s" % (m, v), c == want, "Encodable::%s forwards to %s for %s" % (m, c, v) if c == want else
                   "Encodable::%s forwards to `%s` when wrapping a %s (the other arms call `%s`): in that kind of scope the wrong index space / emitter is used" % (m, c, v, want),
                   site="%s in %s" % (sp, f.id))
    ctx.ob(rule, "forward-rows", n >= 18, "Encodable forwarding arms checked: %d" % n, nontrivial=False)


def index_capture(ctx):
    """R01.1: every read of an index-space counter is immediately followed (on every path) by the emission it numbers."""
    db, prov = ctx.db, ctx.prov
    forwarding_wrappers(ctx)
    prim = emit_primitives(db)
    ctx.ob("R01.1", "anchor", len(prim) >= 5, "emission primitives: %s" % sorted(x.split("::")[-1] for x in prim), nontrivial=False)
    emit = emitting_fns(db, prim)
    n = 0
    for f in sorted(db.fns.values(), key=lambda x: x.id):
        if f.crate != "wac_graph":
            continue
        cfg = None
        for t in f.calls():
            p = t.path or ""
            m = p.rsplit("::", 1)[-1]
            if m not in COUNTS or not (p.startswith(ENC + "Encodable::") or p.startswith("wasm_encoder::")):
                continue
            if f.id.startswith(ENC + "Encodable::"):
                continue  # the forwarding wrappers themselves
            cfg = cfg or CFG(f)
            ctx.touch(f)
            n += 1
            space = COUNTS[m]
            # forward walk from the capture to the first emission primitive on every path
            bad = None
            first = set()
            seen = set()
            dq = deque([t.target] if t.target is not None else [])
            while dq:
                b = dq.popleft()
                if b in seen:
                    continue
                seen.add(b)
                tt = cfg.blocks[b].term
                if tt.k == "call":
                    cp = tt.path or ""
                    if cp in prim or is_foreign_emit(cp):
                        first.add((prim.get(cp) or is_foreign_emit(cp), b))
                        continue
                    if cp in emit and cp != f.id or (cp == f.id):
                        bad = tt
                        break
                    if cp.startswith(ENC + "State::used_type_index"):
                        bad = tt
                        break
                    # an emitting function run through a closure handed to this call (`opt.map(|t| self.value_type(state, t))`)
                    via = None
                    for fa in tt.fnargs:
                        g = db.fns.get(strip_generics(fa))
                        for h in (db.with_closures(g) if g is not None else []):
                            for c in h.calls():
                                hp = c.path or ""
                                if hp in emit or hp in prim or is_foreign_emit(hp):
                                    via = c
                    if via is not None:
                        bad = via
                        break
                if tt.k == "return":
                    first.add(("<return>", b))
                    continue
                for s in cfg.succ[b]:
                    dq.append(s)
            key = "%s|%s@%d" % (f.id.split("::", 1)[1], m, ordinal(f, t))
            site = "%s in %s" % (t.span, f.id)
            if bad is not None:
                ctx.ob("R01.1", key, False, "`%s` is called between capturing the %s index and the emission it numbers: the captured index is stale when anything is emitted in between" % (bad.path.split("::", 1)[1], space), site=site)
                continue
            kinds = {k for k, _ in first}
            # is the captured value used as an index at all?  (flows to the return value or into an index table)
            allowed = {"type": {"ty", "import_type", "alias", "export_type", "type_defined", "defined_type", "function", "component", "instance", "export", "import"},
                       # (an instance *export* inside a component/instance type also defines the next instance index)
                       "instance": {"import_type", "import", "instantiate", "alias", "export_type", "export"}, "core_type": {"core_type"}}[space]
            ok = bool(kinds) and kinds <= allowed | {"<return>"} and kinds != {"<return>"}
            why = "captured immediately before the emission it numbers (%s)" % sorted(kinds - {"<return>"})
            if not ok:
                why = "the %s counter is read but the next emission on some path is %s" % (space, sorted(kinds))
            else:
                # index-space agreement for import_type: the ComponentTypeRef variant
                for k, b in first:
                    if k in ("import_type", "import"):
                        it = cfg.blocks[b].term
                        sl = prov.slice(f, it.args[-1])
                        variants = {v for a, v in sl.aggs if a.endswith("ComponentTypeRef")}
                        if len(variants) > 1:
                            # the reference was built by an earlier `match` on the same item kind: keep the variants built in the
                            # arm for the kind under which the counter is read (the two matches are correlated by the discriminant)
                            import tables
                            arms = tables.switch_arms(db, prov, f)
                            here = {(adt, v) for _, adt, al, _ in arms for v, tg in al if cfg.dominates(tg, t.bb)}
                            if here:
                                kept = set()
                                for st in f.stmts():
                                    if st.rv.k == "agg" and (st.rv.j.get("adt") or "").endswith("ComponentTypeRef") and st.rv.j.get("variant") in variants:
                                        built = {(adt, v) for _, adt, al, _ in arms for v, tg in al if cfg.dominates(tg, st.bb)}
                                        if not built or built & here:
                                            kept.add(st.rv.j["variant"])
                                if kept:
                                    variants = kept
                        want = {"type": {"Type"}, "instance": {"Instance"}, "core_type": set()}[space]
                        if variants and not (variants <= want):
                            ok = False
                            why = "the %s counter numbers an import of kind %s (wrong index space)" % (space, sorted(variants))
            ctx.ob("R01.1", key, ok, why, site=site)
    ctx.floor("R01.1", 20)


def validator_features(ctx):
    """R01.8: every place that builds a wasmparser Validator (package acceptance in wac-types, the optional final
    validation of encode, any other) uses the same feature-set expression: a package accepted at registration under a
    wider set than the final validation would make `encode` fail post hoc for a composition every operation accepted;
    a narrower acceptance set rejects what the output may contain."""
    db, prov = ctx.db, ctx.prov
    sites = []
    for f in db.fns.values():
        if f.crate not in ("wac_graph", "wac_types", "wac_parser", "wac_resolver", "wac_cli", "wac") or f.from_expansion:
            continue
        for t in f.calls():
            p = t.path or ""
            if not p.startswith("wasmparser::validator::Validator::new"):
                continue
            if p.endswith("::new"):
                sig = ("<Validator::new: default features>",)
            else:
                sl = prov.slice(f, t.args[0])
                sig = tuple(sorted({(c.path or "?") for _, c in sl.calls} | {str(c) for c in sl.consts})) or ("<unknown>",)
            sites.append((f, t, sig))
            ctx.touch(f)
    ref = None
    for f, t, sig in sites:
        if f.id.endswith("Package::from_bytes"):
            ref = sig
    ctx.ob("R01.8", "acceptance-site", ref is not None, "the package acceptance validator (Package::from_bytes) was found: %s" % (ref,), nontrivial=False)
    for f, t, sig in sites:
        ok = ref is not None and sig == ref
        ctx.ob("R01.8", "features|%s" % f.id, ok,
               "validator feature set %s is the one packages are accepted under" % (sig,) if ok else
               "validator built with %s but packages are accepted under %s: a composition of accepted packages can fail the final validation (or an acceptable package is refused)" % (sig, ref),
               site="%s in %s" % (t.span, f.id))
    ctx.floor("R01.8", 3)


class ctx_alias:
    """records another module's obligations under this property's rule id."""

    def __init__(self, ctx, rule):
        self.ctx = ctx
        self.rule = rule
        self.db, self.prov = ctx.db, ctx.prov

    def ob(self, rule, key, ok, why, **kw):
        return self.ctx.ob(self.rule, "%s/%s" % (rule, key), ok, why, **kw)

    def touch(self, f):
        self.ctx.touch(f)

    def floor(self, rule, n):
        pass

    def lost(self, rule, what):
        self.ctx.lost(self.rule, what)


def ordinal(f, t):
    k = 0
    for c in f.calls():
        if c is t:
            return k
        if c.path == t.path:
            k += 1
    return k


def scope_pairing(ctx):
    """R01.2: push/pop balance (forward dataflow of the scope depth over each body)."""
    db, prov = ctx.db, ctx.prov
    n = 0
    for f in db.fns.values():
        if f.crate != "wac_graph" or f.id.startswith(ENC + "State::"):
            continue
        pushes = [t for t in f.calls() if t.path == ENC + "State::push"]
        pops = [t for t in f.calls() if t.path == ENC + "State::pop"]
        if not pushes and not pops:
            continue
        n += 1
        ctx.touch(f)
        cfg = CFG(f)
        depth = {0: 0}
        work = [0]
        ok = True
        why = "every State::push is matched by exactly one State::pop on every returning path"
        while work and ok:
            b = work.pop()
            d = depth[b]
            t = cfg.blocks[b].term
            if t.k == "call" and t.path == ENC + "State::push":
                d += 1
            elif t.k == "call" and t.path == ENC + "State::pop":
                d -= 1
                if d < 0:
                    ok = False
                    why = "a scope is popped that this body did not push"
            if t.k == "return" and d != 0:
                ok = False
                why = "a path returns with %d scope(s) still pushed" % d
            for s in cfg.succ[b]:
                if cfg.blocks[s].term.k == "unreachable" or cfg.diverges(s):
                    continue   # shared `unreachable`/panic blocks are not joins of live paths
                if s in depth:
                    if depth[s] != d:
                        ok = False
                        why = "paths join with different scope depths (%d vs %d)" % (depth[s], d)
                else:
                    depth[s] = d
                    work.append(s)
        # the popped encodable is emitted into the parent: pop result flows into an emission
        if ok:
            for p in pops:
                used = False
                for t in f.calls():
                    cp = t.path or ""
                    if (is_foreign_emit(cp) or cp.startswith("wasm_encoder::")) and any(x is p for a in t.args for _, x in prov.slice(f, a).calls):
                        used = True
                if not used:
                    ok = False
                    why = "the encodable returned by State::pop is not emitted into the enclosing scope"
        ctx.ob("R01.2", "balance|" + f.id.split("::", 1)[1], ok, why, site=f.span)
    ctx.floor("R01.2", 4)


def alias_reset(ctx):
    """R01.2b: the per-scope table of `use` aliases is reset unconditionally; interface/world encoders always run it."""
    db, prov = ctx.db, ctx.prov
    ua = db.fn(ENC + "TypeEncoder::use_aliases")
    ctx.touch(ua)
    cfg = CFG(ua)
    clears = [t for t in ua.calls() if (t.path or "").endswith("IndexMap::clear") and narrow(prov, ua, t.args[0]).has_field("type_aliases", "encoding::Scope")]
    ok = bool(clears) and all(any(cfg.dominates(c.bb, r) for c in clears) for r in cfg.exits())
    # and nothing is inserted before the clear
    ins = [t for t in ua.calls() if (t.path or "").endswith("IndexMap::insert") and narrow(prov, ua, t.args[0]).has_field("type_aliases", "encoding::Scope")]
    ok = ok and all(any(cfg.dominates(c.bb, i.bb) for c in clears) for i in ins)
    # … and it is not re-entered while it collects: nothing it calls may (transitively) run use_aliases again on the same scope —
    # the nested run would clear the aliases collected so far
    inner = set()
    for t in ua.calls():
        c = db.fns.get(t.path or "")
        if c is not None and c.crate == "wac_graph":
            inner |= db.reachable([c.id])
    ctx.ob("R01.2", "alias-collect-not-reentered", ua.id not in inner,
           "use_aliases calls nothing that runs use_aliases again" if ua.id not in inner else
           "use_aliases calls into the encoder (import_deps -> instance -> use_aliases) while collecting: the nested run clears the current scope's aliases, so a used resource is later written as a fresh `(sub resource)`", site=ua.span)
    ctx.ob("R01.2", "alias-reset|use_aliases", ok, "type_aliases is cleared on every path through use_aliases before anything is recorded" if ok else
           "use_aliases can return without clearing type_aliases: stale aliases of the previous interface leak into the next one", site=ua.span)
    for name in ("instance", "component"):
        f = db.fn(ENC + "TypeEncoder::" + name)
        ctx.touch(f)
        cfg = CFG(f)
        calls = [t for t in f.calls() if t.path == ua.id]
        okc = bool(calls) and all(any(cfg.dominates(c.bb, r) for c in calls) for r in cfg.exits())
        ctx.ob("R01.2", "alias-reset|" + name, okc, "TypeEncoder::%s runs use_aliases on every path" % name if okc else
               "TypeEncoder::%s skips use_aliases on some path: the previous scope's aliases stay active" % name, site=f.span)
    # the lookup of the using entity's own item uses the local alias name (the loop key), not the original export name
    gets = [t for t in ua.calls() if (t.path or "").endswith("IndexMap::get")]
    items_param = [i for i in range(1, ua.arg_count + 1) if "ItemKind" in ua.locals[i] and "IndexMap" in ua.locals[i]]
    for t in gets:
        rs = narrow(prov, ua, t.args[0])
        if not any(i in items_param for fid, i in rs.params):
            continue
        ks = prov.slice(ua, t.args[1])
        okk = not ks.has_field("name", "component::UsedType") and ks.has_call("::next")
        ctx.ob("R01.2", "alias-own-item-key", okk, "the using entity's own item is looked up under the local (possibly renamed) name" if okk else
               "the using entity's own item is looked up under the *original* export name: with `use a.{t as u}` an unrelated own type `t` is aliased to a.t",
               site="%s in %s" % (t.span, ua.id))


def emission_order(ctx):
    """R01.3 in CompositionGraphEncoder::encode."""
    db, prov = ctx.db, ctx.prov
    f = db.fn(GR + "CompositionGraphEncoder::encode")
    ctx.touch(f)
    cfg = CFG(f)

    def first(pathsuffix):
        c = [t for t in f.calls() if (t.path or "").endswith(pathsuffix)]
        return c

    topo = first("CompositionGraphEncoder::toposort")
    imps = first("CompositionGraphEncoder::encode_imports")
    nodes = first("CompositionGraphEncoder::definition") + first("CompositionGraphEncoder::instantiation") + first("CompositionGraphEncoder::alias")
    exps = [t for t in f.calls() if (t.path or "").endswith("ComponentBuilder::export")]
    names = first("CompositionGraphEncoder::encode_names")
    fin = first("ComponentBuilder::finish")
    chain = [("toposort", topo), ("encode_imports", imps), ("node loop", nodes), ("export loop", exps), ("encode_names", names), ("finish", fin)]
    def anchor_block(t):
        # a call inside a loop is represented by its loop header
        h = loop_header_of(cfg, t.bb)
        return h if h is not None else t.bb
    for (an, a), (bn, b) in zip(chain, chain[1:]):
        ok = bool(a) and bool(b) and all(any(cfg.dominates(anchor_block(x), anchor_block(y)) and anchor_block(x) != anchor_block(y) for x in a) for y in b)
        ctx.ob("R01.3", "order|%s<%s" % (an, bn), ok, "%s dominates %s" % (an, bn) if ok else "%s does not dominate %s (sites: %d, %d)" % (an, bn, len(a), len(b)), site=f.span)
    # the partition consumes the toposort result; import errors propagate
    parts = [t for t in f.calls() if (t.path or "").endswith("Iterator::partition")]
    okp = bool(parts) and all(any(x in topo for _, x in prov.slice(f, p.args[0]).calls) for p in parts)
    ctx.ob("R01.3", "partition-of-toposort", okp, "import and other nodes are partitioned from the topological order" if okp else "the node partition does not consume the toposort result", site=f.span)
    # every non-import node's index is recorded
    rec = [t for t in f.calls() if (t.path or "").endswith("HashMap::insert") and narrow(prov, f, t.args[0]).has_field("node_indexes", "encoding::State")]
    okr = bool(rec) and all(any(cfg.dominates(x.bb, r.bb) for x in nodes) or True for r in rec) and all(cfg.reaches(r.bb, r.bb) for r in rec)
    ctx.ob("R01.3", "node-index-recorded", okr, "each encoded node's index is recorded in node_indexes inside the node loop" if okr else "node indexes are not recorded per node", site=f.span)


def dependency_edges(ctx):
    """R01.6: Edge::Dependency goes from the referenced definition to the referencing one."""
    db, prov = ctx.db, ctx.prov
    SG = "petgraph::graph_impl::stable_graph::StableGraph::"
    f = db.fn(GR + "CompositionGraph::define_type")
    ctx.touch(f)
    visits = [t for t in f.calls() if (t.path or "").endswith("visit_defined_types")]
    ctx.ob("R01.6", "anchor", len(visits) == 2, "visit_defined_types sites in define_type: %d" % len(visits), nontrivial=False)
    for v in visits:
        rs = prov.slice(f, v.args[0], follow_closures=False)
        recv_new = any(i == 3 for fid, i in rs.params if fid == f.id) and not rs.has_call("::next")
        for fa in v.fnargs:
            c = db.fns.get(strip_generics(fa))
            if c is None:
                continue
            ctx.touch(c)
            for t in c.calls():
                if t.path != SG + "add_edge":
                    continue
                if ("wac_graph::graph::Edge", "Dependency") not in prov.slice(c, t.args[3]).aggs:
                    continue
                s_src, s_tgt = prov.slice(c, t.args[1]), prov.slice(c, t.args[2])
                src_new = s_src.has_call("StableGraph::add_node") and not s_src.has_call("HashMap::get") and not s_src.has_call("::next")
                tgt_new = s_tgt.has_call("StableGraph::add_node") and not s_tgt.has_call("HashMap::get") and not s_tgt.has_call("::next")
                if recv_new:
                    ok = tgt_new and not src_new
                    why = "types the new definition refers to point at it (dependency -> new node)" if ok else \
                        "while visiting the types the *new* definition refers to, the edge is added from the new node to its dependency (reversed: the dependent would be emitted first)"
                else:
                    ok = src_new and not tgt_new
                    why = "the new definition points at existing definitions that refer to it (new node -> dependent)" if ok else \
                        "while visiting existing definitions that refer to the new type, the edge is added from the dependent to the new node (reversed: the dependent is emitted before its dependency)"
                ctx.ob("R01.6", "direction|%s" % ("new-refers" if recv_new else "existing-refers"), ok, why, site="%s in %s" % (t.span, c.id))
    ctx.floor("R01.6", 3)
