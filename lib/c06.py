"""C06 — graph API stays consistent over every operation history.

Structural clauses decided (DESIGN §3/C06): paired-state invariants at every petgraph mutation
site of wac-graph (satisfied-argument set <-> argument edges, export map <-> node, import and
definition maps <-> nodes), cascade idempotence, generation discipline, uniqueness checks."""
from cfg import CFG, error_blocks
from prov import narrow, is_transparent
from pat import *

EXPLANATION = ("static pairing/typestate rules over the MIR of wac-graph: every petgraph mutation site "
               "(add_node/add_edge/remove_node/remove_edge/retain_nodes) is matched with the bookkeeping the "
               "paired-state invariants of CompositionGraph require, checked by dominance on the CFG and by "
               "def-use provenance of the arguments; decides these structural necessary conditions, not the "
               "behaviour over operation histories")

SG = "petgraph::graph_impl::stable_graph::StableGraph::"
GRAPH = "wac_graph::graph::"


def satisfied_helpers(ctx):
    """functions that mutate / read the satisfied-argument set: bodies calling HashSet<usize>::{insert,remove,contains}
    on the payload of NodeKind::Instantiation."""
    db, prov = ctx.db, ctx.prov
    adders, removers, readers, others = [], [], [], []
    for f in db.fns.values():
        if f.crate != "wac_graph":
            continue
        for t in f.calls():
            p = t.path or ""
            if "::HashSet::" not in p:
                continue
            sl = narrow(prov, f, t.args[0])
            if not sl.has_field("0", "graph::NodeKind"):
                continue
            m = p.rsplit("::", 1)[1]
            (adders if m == "insert" else removers if m == "remove" else readers if m == "contains" else others).append(f)
    return adders, removers, readers, others


def run(ctx):
    db, prov = ctx.db, ctx.prov
    gfns = [f for f in db.fns.values() if f.crate == "wac_graph"]

    adders, removers, readers, others = satisfied_helpers(ctx)
    adder_ids = {f.id for f in adders}
    remover_ids = {f.id for f in removers}
    ctx.ob("R06.1", "helpers", len(adder_ids) == 1 and len(remover_ids) == 1 and not others,
           "the satisfied-argument set is mutated only through one add helper and one remove helper: add=%s remove=%s other=%s"
           % (sorted(adder_ids), sorted(remover_ids), sorted({f.id for f in others})))
    if not adder_ids or not remover_ids:
        return

    # who-may-call: the helpers are private and only called from wac_graph::graph bodies
    callers = db.callers()
    for hid in sorted(adder_ids | remover_ids):
        h = db.fn(hid)
        cs = sorted(callers.get(hid, ()))
        ctx.ob("R06.1", "who-may-call:" + hid, (not h.is_pub) and all(c.startswith(GRAPH) for c in cs),
               "helper is private and called only from %s" % cs, site=h.span)

    n_add = n_rm_edge = n_rm_node = 0
    for f in gfns:
        cfg = None
        for t in list(f.calls()):
            p = t.path or ""
            if not p.startswith(SG):
                continue
            m = p[len(SG):]
            if m not in ("add_edge", "remove_edge", "remove_node", "retain_nodes", "add_node", "clear", "clear_edges"):
                continue
            cfg = cfg or CFG(f)
            ctx.touch(f)
            site = "%s in %s" % (t.span, f.id)
            if m in ("clear", "clear_edges"):
                ctx.ob("R06.1", "%s|%s" % (f.id, m), False, "wholesale graph clearing has no paired-state bookkeeping rule", site=site)
            elif m == "add_edge":
                wsl = prov.slice(f, t.args[3])
                if ("wac_graph::graph::Edge", "Argument") not in wsl.aggs:
                    continue
                n_add += 1
                # a call to the adder must lie on every path from the add_edge to a return
                adds = [c for c in f.calls() if c.path in adder_ids]
                post = [c for c in adds if cfg.must_pass([c.bb], src=t.bb)]
                ok = bool(post)
                why = "add_satisfied_arg on every path after the Argument edge is added" if ok else "no add_satisfied_arg post-dominates the add_edge"
                if ok:
                    c = post[0]
                    # same target node, same index
                    tgt = narrow(prov, f, t.args[2]).locals
                    recv = narrow(prov, f, c.args[0]).locals
                    agg_ops = agg_payload_locals(prov, f, t.args[3], "Argument")
                    idx = narrow(prov, f, c.args[1]).locals
                    same_t = bool(tgt & recv)
                    same_i = bool(agg_ops & idx)
                    ok = same_t and same_i
                    why += "; helper receiver shares the edge target: %s; helper index shares the edge payload: %s" % (same_t, same_i)
                ctx.ob("R06.1", "add|%s" % f.id, ok, why, site=site)
            elif m == "remove_edge":
                n_rm_edge += 1
                rms = [c for c in f.calls() if c.path in remover_ids]
                ok = any(cfg.dominates(c.bb, t.bb) or (cfg.dominates(t.bb, c.bb) and cfg.must_pass([c.bb], src=t.bb)) for c in rms)
                ctx.ob("R06.1", "remove_edge|%s" % f.id, ok,
                       "remove_satisfied_arg is paired with the edge removal on every path" if ok else
                       "edge removed without clearing the satisfied argument", site=site)
            elif m in ("remove_node", "retain_nodes"):
                n_rm_node += 1
                check_node_removal(ctx, f, cfg, t, m, remover_ids, site)

    ctx.floor("R06.1", 7)
    ctx.ob("R06.1", "count", n_add >= 1 and n_rm_edge >= 1 and n_rm_node >= 2,
           "mutation sites found: add_edge(Argument)=%d remove_edge=%d remove_node/retain_nodes=%d" % (n_add, n_rm_edge, n_rm_node), nontrivial=False)

    check_maps(ctx, gfns)
    check_cascade(ctx, gfns)
    check_generation(ctx, gfns)
    check_uniqueness(ctx)
    check_argument_scan(ctx, gfns)
    check_edge_selection(ctx, gfns)
    check_package_closure(ctx, gfns)
    check_unregister_complete(ctx)
    import c01, engine
    c01.dependency_edges(engine.AliasCtx(ctx, {"R01.6": "R06.11"}))


def agg_payload_locals(prov, f, operand, variant):
    """locals flowing into the payload operands of the aggregate `variant` that reaches `operand`."""
    out = set()
    sl = prov.slice(f, operand)
    d = prov.defs(f)
    for (fid, l) in sl.locals:
        if fid != f.id:
            continue
        for kind, site in d.defs.get(l, ()):
            if kind == "stmt" and site.rv.k == "agg" and site.rv.j.get("variant") == variant:
                for o in site.rv.ops:
                    out |= narrow(prov, f, o).locals
    return out


def check_node_removal(ctx, f, cfg, t, m, remover_ids, site):
    """R06.1 for implicit edge removal + R06.2/3/4 map maintenance."""
    db, prov = ctx.db, ctx.prov
    # --- R06.1: a loop over the outgoing Argument edges of the removed node(s) clears satisfied bits before removal
    ok = False
    why = "no loop clearing the satisfied arguments of outgoing argument edges dominates the node removal"
    for c in f.calls():
        if c.path not in remover_ids:
            continue
        hdr = loop_header_of(cfg, c.bb)
        if hdr is None:
            why = "remove_satisfied_arg is not inside a loop over edges"
            continue
        if not cfg.dominates(hdr, t.bb):
            why = "the clearing loop does not dominate the node removal (guarded or placed after it)"
            continue
        isl = prov.slice(f, c.args[1])
        rsl = prov.slice(f, c.args[0])
        src_edges = isl.has_call("::edges_directed") or isl.has_call("::edge_references") or isl.has_call("::edges")
        payload = any(n == "0" and o.endswith("graph::Edge") and v == "Argument" for n, o, v in isl.fields)
        tgt = rsl.has_call("EdgeRef>::target") and not rsl.has_call("EdgeRef>::source") if m == "remove_node" else rsl.has_call("EdgeRef>::target")
        if m == "remove_node":
            # edges of the node being removed, outgoing
            node_l = narrow(prov, f, t.args[1]).locals
            edge_calls = [x for _, x in isl.calls if (x.path or "").endswith("::edges_directed") or (x.path or "").endswith("::edges")]
            same_node = any(narrow(prov, f, x.args[1]).locals & node_l or
                            (narrow(prov, f, x.args[1]).params & narrow(prov, f, t.args[1]).params) for x in edge_calls)
            outgoing = all(len(x.args) < 3 or prov.const_of(f, x.args[2]) == ("variant", "petgraph::Direction", "Outgoing") for x in edge_calls) and bool(edge_calls)
        else:
            same_node = outgoing = True
        ok = src_edges and payload and tgt and same_node and outgoing
        why = ("clearing loop dominates removal; index from Edge::Argument payload=%s; iterates graph edges=%s; "
               "receiver is the edge target=%s; edges of the removed node=%s; outgoing=%s" % (payload, src_edges, tgt, same_node, outgoing))
        if ok:
            break
    ctx.ob("R06.1", "%s|%s" % (m, f.id), ok, why, site=site)

    # --- R06.2 / R06.3 / R06.4: the three maps
    for field, rule, kinds in (("exports", "R06.2", ("indexmap::map::IndexMap::",)), ("imports", "R06.3", ("std::collections::hash::map::HashMap::",)),
                               ("defined", "R06.4", ("std::collections::hash::map::HashMap::",))):
        if m == "retain_nodes":
            cs = [c for c in f.calls() if (c.path or "").endswith("::retain") and (c.path or "").startswith(kinds)
                  and narrow(prov, f, c.args[0]).has_field(field, "graph::CompositionGraph")]
            ok = any(cfg.dominates(c.bb, t.bb) for c in cs)
            ctx.ob(rule, "retain_nodes|%s" % f.id, ok,
                   "`%s.retain` dominates retain_nodes (node indices are still valid)" % field if ok else
                   "`%s` is not pruned before retain_nodes" % field, site=site)
        else:
            if field == "exports":
                ok = any(cfg.dominates(t.bb, c.bb) and cfg.must_pass([c.bb], src=t.bb) and is_export_purger(ctx, f, c)
                         for c in f.calls())
                ctx.ob(rule, "remove_node|%s" % f.id, ok,
                       "every export name of the removed node is purged on all paths after the removal" if ok else
                       "node removal does not purge all export names that refer to the node", site=site)
            else:
                cs = [c for c in f.calls() if (c.path or "").endswith("::remove") and (c.path or "").startswith(kinds)
                      and narrow(prov, f, c.args[0]).has_field(field, "graph::CompositionGraph")]
                ok = any(cfg.dominates(t.bb, c.bb) for c in cs)
                # the removal is conditional on the node kind (import name / Definition); the condition must read the removed node
                if ok:
                    c = [c for c in cs if cfg.dominates(t.bb, c.bb)][0]
                    ksl = prov.slice(f, c.args[1])
                    ok = any(x is t for _, x in ksl.calls)
                ctx.ob(rule, "remove_node|%s" % f.id, ok,
                       "`%s.remove` keyed by the removed node follows the removal" % field if ok else
                       "`%s` entry of a removed node is not removed" % field, site=site)


def is_export_purger(ctx, f, c, depth=0):
    """call c (in f) removes *every* entry of `exports` whose value is a given node: either `retain` on the field,
    or a local callee whose body has a CFG cycle containing swap_remove/shift_remove on the field."""
    db, prov = ctx.db, ctx.prov
    p = c.path or ""
    if p.startswith("indexmap::map::IndexMap::") and p.endswith("::retain") and narrow(prov, f, c.args[0]).has_field("exports", "graph::CompositionGraph"):
        return True
    g = db.fns.get(p)
    if g is None or depth > 1:
        return False
    cfg = CFG(g)
    for x in g.calls():
        xp = x.path or ""
        if xp.startswith("indexmap::map::IndexMap::") and xp.rsplit("::", 1)[1] in ("swap_remove", "shift_remove", "remove") \
                and narrow(prov, g, x.args[0]).has_field("exports", "graph::CompositionGraph"):
            if cfg.reaches(x.bb, x.bb):
                # the key must come from scanning the map for the node (comparison against the index parameter)
                ksl = prov.slice(g, x.args[1])
                if ksl.has_call("IndexMap::iter") or ksl.has_call("::iter") or ksl.has_call("::keys"):
                    return True
        if xp.endswith("::retain") and narrow(prov, g, x.args[0]).has_field("exports", "graph::CompositionGraph"):
            return True
    return False


def check_maps(ctx, gfns):
    """R06.2 (unexport side) and the add side of R06.3/R06.4."""
    db, prov = ctx.db, ctx.prov
    n = 0
    for f in gfns:
        # bodies that clear Node.export (Option::take / assignment of None)
        clears = []
        for t in f.calls():
            if (t.path or "").endswith("::Option::take") and narrow(prov, f, t.args[0]).has_field("export", "graph::Node"):
                clears.append(t)
        if clears:
            cfg = CFG(f)
            ctx.touch(f)
            for t in clears:
                n += 1
                ok = any(is_export_purger(ctx, f, c) and cfg.must_pass([c.bb], src=t.bb, cut=error_blocks(f)) for c in f.calls())
                ctx.ob("R06.2", "unexport|%s" % f.id, ok,
                       "every export name of the node is purged on all success paths after Node.export is cleared" if ok else
                       "only the name stored in Node.export is removed; additional export names of the node stay in the map",
                       site="%s in %s" % (t.span, f.id))
    ctx.ob("R06.2", "count", n >= 1, "bodies clearing Node.export: %d" % n, nontrivial=False)

    # add side: add_node with NodeKind::Import => imports.insert on all success paths; Definition => defined.insert + exports.insert
    for kind, fields in (("Import", ("imports",)), ("Definition", ("defined", "exports"))):
        found = 0
        for f in gfns:
            for t in f.calls():
                if (t.path or "") != SG + "add_node":
                    continue
                sl = prov.slice(f, t.args[1])
                if ("wac_graph::graph::NodeKind", kind) not in sl.aggs:
                    continue
                found += 1
                cfg = CFG(f)
                ctx.touch(f)
                for fld in fields:
                    cs = [c for c in f.calls() if (c.path or "").endswith("::insert")
                          and narrow(prov, f, c.args[0]).has_field(fld, "graph::CompositionGraph")]
                    ok = any(cfg.must_pass([c.bb], src=t.bb, cut=error_blocks(f)) and
                             any(x is t for _, x in prov.slice(f, c.args[2]).calls) for c in cs)
                    ctx.ob("R06.3" if fld == "imports" else "R06.4", "add_node(%s)|%s|%s" % (kind, f.id, fld), ok,
                           "`%s.insert(.., new node)` on every success path after add_node" % fld if ok else
                           "new %s node is not recorded in `%s` on every success path" % (kind, fld),
                           site="%s in %s" % (t.span, f.id))
        ctx.ob("R06.4", "count-" + kind, found >= 1, "add_node(%s) sites: %d" % (kind, found), nontrivial=False)


def check_cascade(ctx, gfns):
    """R06.5: recursive removal over a pre-collected successor list tolerates already-removed successors."""
    db, prov = ctx.db, ctx.prov
    n = 0
    for f in gfns:
        rec = [t for t in f.calls() if t.path == f.id]
        rm = [t for t in f.calls() if t.path == SG + "remove_node"]
        if not rec or not rm:
            continue
        cfg = CFG(f)
        ctx.touch(f)
        # is the Option result of StableGraph::remove_node unwrapped?
        unwrapped = any((c.path or "").endswith(("::Option::expect", "::Option::unwrap")) and
                        any(x in rm for _, x in prov.slice(f, c.args[0]).calls) for c in f.calls())
        for t in rec:
            n += 1
            if not unwrapped:
                ctx.ob("R06.5", "%s|recursive-call" % f.id, True, "removal result is not unwrapped: a second visit is a no-op", site=t.span)
                continue
            ok = False
            for c in f.calls():
                if c.path != SG + "contains_node" or c.target is None:
                    continue
                sw = cfg.blocks[c.target].term
                if sw.k != "switch":
                    continue
                true_targets = [sw.j["otherwise"]] + [tg for v, tg in sw.j["targets"] if v != 0]
                false_targets = [tg for v, tg in sw.j["targets"] if v == 0]
                same = narrow(prov, f, c.args[1]).locals & narrow(prov, f, t.args[1]).locals
                if same and any(cfg.dominates(tt, t.bb) for tt in true_targets) and not any(cfg.dominates(ft, t.bb) for ft in false_targets):
                    ok = True
            ctx.ob("R06.5", "%s|recursive-call" % f.id, ok,
                   "recursive removal is guarded by contains_node(successor) (successors are collected before the cascade)" if ok else
                   "a successor already removed by an earlier cascade is removed again and the `expect` on the result panics",
                   site="%s in %s" % (t.span, f.id))
    ctx.ob("R06.5", "count", n >= 1, "recursive node-removal call sites: %d" % n, nontrivial=False)
    # the cascade visits every collected successor: the loop is left only when its iterator is exhausted
    for f in gfns:
        rec = [t for t in f.calls() if t.path == f.id]
        if not rec or not any(t.path == SG + "remove_node" for t in f.calls()):
            continue
        cfg = CFG(f)
        for t in rec:
            nxs = [x for x in f.calls() if (x.path or "").endswith("::next") and cfg.reaches(x.bb, t.bb) and cfg.reaches(t.bb, x.bb) and x.target is not None]
            for nx in nxs:
                sw = cfg.blocks[nx.target].term
                if sw.k != "switch":
                    continue
                some = [tg for v, tg in sw.j["targets"] if v == 1]
                if not some:
                    continue
                region = cfg.reach_from(some[0], cut={nx.bb})
                body = {x for x in region if cfg.reaches(x, nx.bb)}
                leaks = [x for x in region - body if not cfg.diverges(x) and cfg.blocks[x].term.k != "unreachable"]
                # blocks reachable from the body that never come back to the loop head and do not panic: an early exit
                leaks = [x for x in leaks if any(p in body for p in cfg.pred[x])]
                ctx.ob("R06.5", "%s|no-early-exit" % f.id, not leaks,
                       "the cascade loop is left only when all collected successors were visited" if not leaks else
                       "the cascade loop can be left early (break/return inside the loop): the remaining dependants are never removed",
                       site="%s in %s" % (cfg.blocks[leaks[0]].term.span if leaks else t.span, f.id))


def check_generation(ctx, gfns):
    """R06.6: a PackageId coming from a public parameter is validated against the slot's generation."""
    db, prov = ctx.db, ctx.prov
    n = 0
    for f in gfns:
        pid_params = [i for i in range(1, f.arg_count + 1) if f.locals[i].endswith("graph::PackageId")]
        if not pid_params or "{closure" in f.id:
            continue
        if not (f.is_pub or f.impl_trait):
            continue
        # does the body project .index of that parameter?
        uses_index = False
        for s in f.stmts():
            for pl in [s.rv.place] + [o.place for o in s.rv.ops]:
                if pl is not None and pl.local in pid_params and any(n_ == "index" for n_, o, v in pl.fields()):
                    uses_index = True
        reads_slots = any(pl is not None and any(n_ == "packages" and o.endswith("graph::CompositionGraph") for n_, o, v in pl.fields())
                          for s in f.stmts() for pl in [s.rv.place] + [o.place for o in s.rv.ops])
        if not uses_index or not reads_slots:
            continue
        n += 1
        cfg = CFG(f)
        ctx.touch(f)
        cmp_blocks = []
        for s in f.stmts():
            if s.rv.k == "bin" and s.rv.op in ("Eq", "Ne"):
                a, b = (prov.slice(f, o) for o in s.rv.ops)
                if (a.has_field("generation", "RegisteredPackage") and b.has_field("generation", "PackageId")) or \
                   (b.has_field("generation", "RegisteredPackage") and a.has_field("generation", "PackageId")):
                    cmp_blocks.append(s.bb)
        for t in f.calls():
            if (t.path or "").endswith(("PartialEq::eq", "PartialEq::ne")) or (t.declared or "").endswith(("PartialEq::eq", "PartialEq::ne")):
                a, b = (prov.slice(f, o) for o in t.args[:2])
                if (a.has_field("generation", "RegisteredPackage") and b.has_field("generation", "PackageId")) or \
                   (b.has_field("generation", "RegisteredPackage") and a.has_field("generation", "PackageId")):
                    cmp_blocks.append(t.bb)
        ok = bool(cmp_blocks) and cfg.must_pass(cmp_blocks)
        ctx.ob("R06.6", "generation|%s" % f.id, ok,
               "every returning path compares the slot generation with the id's generation" if ok else
               "a package slot is read through a caller-supplied PackageId without the generation check", site=f.span)
    ctx.floor("R06.6", 2)
    # freeing a slot bumps the generation
    for f in gfns:
        for t in f.calls():
            if (t.path or "").endswith("Vec::push") and narrow(prov, f, t.args[0]).has_field("free_packages", "CompositionGraph"):
                ctx.touch(f)
                bumped = False
                for c in f.calls():
                    if (c.path or "").endswith("RegisteredPackage::new"):
                        sl = prov.slice(f, c.args[0])
                        if sl.has_field("generation", "RegisteredPackage") and (sl.has_call("wrapping_add") or "Add" in sl.binops or "AddWithOverflow" in sl.binops):
                            bumped = True
                ctx.ob("R06.6", "free|%s" % f.id, bumped,
                       "the freed slot is re-created with generation+1" if bumped else "slot freed without bumping its generation",
                       site="%s in %s" % (t.span, f.id))


def check_argument_scan(ctx, gfns):
    """R06.8: in the already-passed scan of set_instantiation_argument every verdict taken inside the loop
    (early Ok for the same source, ArgumentAlreadyPassed) is guarded by `edge payload == argument index`."""
    db, prov = ctx.db, ctx.prov
    n = 0
    for f in gfns:
        adds = [t for t in f.calls() if t.path == SG + "add_edge" and ("wac_graph::graph::Edge", "Argument") in prov.slice(f, t.args[3]).aggs]
        if not adds:
            continue
        cfg = CFG(f)
        ctx.touch(f)
        scans = [c for c in f.calls() if (c.path or "").endswith("::edges_directed") and any(cfg.dominates(c.bb, a.bb) for a in adds)]
        for sc in scans:
            nxs = [x for x in f.calls() if (x.path or "").endswith("::next") and cfg.reaches(x.bb, x.bb) and any(y is sc for _, y in prov.slice(f, x.args[0]).calls)]
            for nx in nxs:
                if nx.target is None:
                    continue
                sw = cfg.blocks[nx.target].term
                if sw.k != "switch":
                    continue
                some = [tg for v, tg in sw.j["targets"] if v == 1]
                if not some:
                    continue
                region = cfg.reach_from(some[0], cut={nx.bb})
                verdicts = [s_ for s_ in f.stmts() if s_.bb in region and s_.lhs.local == 0 and not s_.lhs.proj and s_.rv.k == "agg"
                            and s_.rv.j.get("adt", "").endswith("result::Result") and not any(cfg.dominates(a.bb, s_.bb) for a in adds)]
                # comparisons payload == index
                guards = []
                for b in f.blocks:
                    if b.term.k != "switch" or b.idx not in region:
                        continue
                    from facts import Operand
                    op = Operand(b.term.j["discr"])
                    sl = prov.slice(f, op)
                    if any(nm == "0" and o.endswith("graph::Edge") and v == "Argument" for nm, o, v in sl.fields) and ("Eq" in sl.binops or sl.has_call("PartialEq")) \
                            and (sl.has_call("get_full") or sl.has_call("get_index_of")):
                        tt, ft = true_false_targets(b.term)
                        guards.append(tt)
                for v_ in verdicts:
                    n += 1
                    ok = any(any(cfg.dominates(x, v_.bb) for x in tt) for tt in guards)
                    ctx.ob("R06.8", "scan-verdict|%s|%s@%d" % (f.id, v_.rv.j.get("variant"), n), ok,
                           "a verdict inside the already-passed scan is taken only for an edge with the same argument index" if ok else
                           "the already-passed scan returns %s for an edge of a *different* argument (not guarded by `payload == argument index`): "
                           "passing one node for two arguments reports success without adding the second edge" % v_.rv.j.get("variant"),
                           site="%s in %s" % (v_.span, f.id))
    ctx.ob("R06.8", "count", n >= 2, "verdicts inside the already-passed scan: %d" % n, nontrivial=False)


def payload_guards(ctx, g):
    """true-branch target sets of the switches in g that compare an Edge::Argument payload with an argument index
    obtained from the world's import map (get_index_of / get_full)."""
    from facts import Operand
    prov = ctx.prov
    out = []
    for b in g.blocks:
        if b.cleanup or b.term.k != "switch":
            continue
        sl = prov.slice(g, Operand(b.term.j["discr"]))
        if any(nm == "0" and o.endswith("graph::Edge") and v == "Argument" for nm, o, v in sl.fields) \
                and ("Eq" in sl.binops or sl.has_call("PartialEq")) and (sl.has_call("get_full") or sl.has_call("get_index_of")):
            tt, ft = true_false_targets(b.term)
            out.append(tt)
    return out


def check_package_closure(ctx, gfns):
    """R06.10: unregister_package removes exactly the nodes whose `package` field names the package, so a node that
    depends on a package's node through an Alias edge must carry that node's package unconditionally — otherwise an
    alias (of an alias) of an unregistered package's instance survives with a dangling source."""
    db, prov = ctx.db, ctx.prov
    n = 0
    for f in gfns:
        adds = [t for t in f.calls() if t.path == SG + "add_edge" and ("wac_graph::graph::Edge", "Alias") in prov.slice(f, t.args[3]).aggs]
        if not adds:
            continue
        ctx.touch(f)
        news = [t for t in f.calls() if t.path == GRAPH + "Node::new" and ("wac_graph::graph::NodeKind", "Alias") in prov.slice(f, t.args[0]).aggs]
        for t in news:
            n += 1
            sl = prov.slice(f, t.args[2])
            inherits = sl.has_field("package", "graph::Node")
            made = sorted(v for a, v in sl.aggs if a.endswith("option::Option"))
            cond = sorted(a.split("::")[-1] for a in sl.discr)
            ok = inherits and not made
            ctx.ob("R06.10", "alias-inherits-package|%s" % f.id, ok,
                   "an alias node always carries its source instance node's package" if ok else
                   "the alias node's package is %s: unregister_package (which removes nodes by their package field) leaves such aliases behind with a dangling source"
                   % ("built from Option::%s %s" % ("/".join(made), "depending on " + ",".join(cond) if cond else "") if made else "not taken from the source node"),
                   site="%s in %s" % (t.span, f.id))
    ctx.ob("R06.10", "count", n >= 1, "alias node constructions checked: %d" % n, nontrivial=False)


def check_unregister_complete(ctx):
    """R06.6 `unregister-complete`: every normal return of unregister_package passes through the removal of the package from
    `package_map` (and the slot bookkeeping that follows): an early return for "no nodes to clean up" leaves the package
    registered — it stays in packages(), its name cannot be registered again, the old id stays valid."""
    db, prov = ctx.db, ctx.prov
    f = db.fn(GRAPH + "CompositionGraph::unregister_package")
    ctx.touch(f)
    cfg = CFG(f)
    rm = [t for t in f.calls() if (t.path or "").rsplit("::", 1)[-1] in ("remove", "swap_remove", "shift_remove") and narrow(prov, f, t.args[0]).has_field("package_map", "graph::CompositionGraph")]
    rets = [b.idx for b in f.blocks if b.term.k == "return" and not b.cleanup]
    ok = bool(rm) and bool(rets) and all(cfg.must_pass([t.bb for t in rm], src=0, dsts={r}) for r in rets)
    ctx.ob("R06.6", "unregister-complete", ok, "every return of unregister_package removes the package from package_map" if ok else
           "unregister_package can return without removing the package from package_map (early return): the package stays registered under its name and its id stays valid", site=f.span)


def is_payload_predicate(ctx, g):
    """closure whose returned value is itself `Edge::Argument payload == argument index`"""
    sl = ctx.prov.slice(g, 0)
    return any(nm == "0" and o.endswith("graph::Edge") and v == "Argument" for nm, o, v in sl.fields) \
        and ("Eq" in sl.binops or sl.has_call("PartialEq")) and (sl.has_call("get_full") or sl.has_call("get_index_of"))


def check_edge_selection(ctx, gfns):
    """R06.9: the argument edge a mutator removes is *the* edge of the argument index whose satisfied bit it clears.
    Two arguments of one instantiation may be fed by the same node (parallel edges), so an edge picked by its
    endpoints alone (find_edge, or the first Argument edge of edges_connecting) can be the wrong one: every edge id
    that reaches remove_edge comes from `EdgeRef::id()` evaluated under `payload == argument index`, or from an
    iterator filtered by such a predicate; never from an endpoint-only lookup."""
    db, prov = ctx.db, ctx.prov
    n = 0
    for f in gfns:
        if "{closure" in f.id:
            continue
        rms = [t for t in f.calls() if t.path == SG + "remove_edge"]
        if not rms:
            continue
        ctx.touch(f)
        group = db.with_closures(f)
        guards = {g.id: payload_guards(ctx, g) for g in group}
        cfgs = {g.id: CFG(g) for g in group}
        # predicate closures (return bool) that contain the payload comparison, handed to an iterator adaptor
        pred_closures = {g.id for g in group if g is not f and (guards[g.id] or is_payload_predicate(ctx, g))}
        for t in rms:
            n += 1
            sl = prov.slice(f, t.args[1])
            paths = {(y.path or "") for _, y in sl.calls}
            endpoint_only = sorted(p for p in paths if p.endswith(("::find_edge", "::find_edge_undirected")))
            idcalls = [(g, y) for g, y in sl.calls if (y.path or "").endswith("EdgeRef>::id")]
            bad = []
            for g, y in idcalls:
                gf = db.fn(g) if isinstance(g, str) else g
                cg = cfgs.get(gf.id) or CFG(gf)
                gs = guards.get(gf.id) if gf.id in guards else payload_guards(ctx, gf)
                if any(any(cg.dominates(x, y.bb) for x in tt) for tt in gs):
                    continue
                # filtered-iterator idiom: the receiver comes out of find/filter/position with a guarding predicate
                rcalls = [c for _, c in prov.slice(gf, y.args[0]).calls]
                # ... also when the id() sits in a closure mapped over the filtered value (`.find(pred).map(|e| e.id())`)
                for h in group:
                    for c in h.calls():
                        if any(strip_closure(fa) == gf.id for fa in c.fnargs) and c.args:
                            rcalls += [c2 for _, c2 in prov.slice(h, c.args[0]).calls]
                filt = [c for c in rcalls if (c.path or "").rsplit("::", 1)[-1] in ("find", "filter", "skip_while", "rfind")
                        and any(strip_closure(fa) in pred_closures for fa in c.fnargs)]
                if filt:
                    continue
                bad.append("%s in %s" % (y.span, gf.id))
            ok = not endpoint_only and bool(idcalls) and not bad
            ctx.ob("R06.9", "edge-selection|%s" % f.id, ok,
                   "the removed edge id comes from EdgeRef::id() evaluated only under `Edge::Argument payload == argument index` (%d site(s))" % len(idcalls) if ok else
                   "the edge handed to remove_edge is not selected by its argument index (%s): with one node passed for two arguments the edge of the *other* argument "
                   "is removed while this argument's satisfied bit is cleared, so edges and the satisfied set disagree and the encoding passes an argument twice"
                   % ("endpoint-only lookup " + ", ".join(p.rsplit("::", 1)[-1] for p in endpoint_only) if endpoint_only else
                      "unguarded EdgeRef::id() at " + "; ".join(bad) if bad else "no EdgeRef::id() source found"),
                   site="%s in %s" % (t.span, f.id))
    ctx.ob("R06.9", "count", n >= 1, "remove_edge sites checked for edge selection: %d" % n, nontrivial=False)


def strip_closure(p):
    from facts import strip_generics
    return strip_generics(p)


def check_uniqueness(ctx):
    """R06.7: map inserts of names are dominated by the failed lookup on the same map and by extern-name validation."""
    db, prov = ctx.db, ctx.prov
    n = 0
    for f in db.fns.values():
        if not f.id.startswith("wac_graph::graph::CompositionGraph::") or "{closure" in f.id:
            continue
        cfg = None
        for t in f.calls():
            p = t.path or ""
            if not p.endswith("::insert") or not p.startswith(("std::collections::hash::map::HashMap::", "indexmap::map::IndexMap::")):
                continue
            rsl = narrow(prov, f, t.args[0])
            fld = [x for x in ("imports", "exports", "defined", "package_map") if rsl.has_field(x, "graph::CompositionGraph")]
            if not fld:
                continue
            fld = fld[0]
            cfg = cfg or CFG(f)
            ctx.touch(f)
            n += 1
            lookups = [c for c in f.calls() if (c.path or "").rsplit("::", 1)[-1] in ("get", "contains_key", "get_full", "get_index_of")
                       and narrow(prov, f, c.args[0]).has_field(fld, "graph::CompositionGraph") and cfg.dominates(c.bb, t.bb)]
            ok = bool(lookups)
            why = "insert into `%s` is dominated by a lookup on the same map" % fld if ok else "insert into `%s` without a preceding uniqueness lookup" % fld
            if ok and fld in ("imports", "exports"):
                v = [c for c in f.calls() if (c.path or "").endswith("names::ComponentName::new") and cfg.dominates(c.bb, t.bb)]
                ok = bool(v)
                why += "; extern-name validation dominates it: %s" % ok
            ctx.ob("R06.7", "insert|%s|%s" % (f.id, fld), ok, why, site="%s in %s" % (t.span, f.id))
    ctx.floor("R06.7", 5)


def run_r061_only(ctx):
    """R06.1 for the node-removal sites (used by C03: a removed provider's arguments become implicit imports again)."""
    db, prov = ctx.db, ctx.prov
    gfns = [f for f in db.fns.values() if f.crate == "wac_graph"]
    adders, removers, readers, others = satisfied_helpers(ctx)
    remover_ids = {f.id for f in removers}
    for f in gfns:
        cfg = None
        for t in list(f.calls()):
            p = t.path or ""
            if p in (SG + "remove_node", SG + "retain_nodes"):
                cfg = cfg or CFG(f)
                check_node_removal(ctx, f, cfg, t, p[len(SG):], remover_ids, "%s in %s" % (t.span, f.id))
