"""Check engine: fact extraction/caching, obligation bookkeeping, evidence + VIOLATION output."""
import hashlib, json, os, subprocess, sys, time, fcntl, shutil, glob

VERIF = os.path.dirname(os.path.dirname(os.path.abspath(__file__)))
REPO = os.environ.get("WAC_REPO", "/repo")
CACHE = os.path.join(VERIF, ".cache")
DRIVER = os.path.join(VERIF, "driver", "target", "release", "wacfacts")
SHIM = os.path.join(VERIF, "tools", "rustc-shim.sh")
EXPECTED = ["wac_types", "wac_graph", "wac_parser", "wac_resolver", "wac_cli", "wac.bin"]


def log(*a):
    print(*a, file=sys.stderr, flush=True)


def sysroot_lib():
    out = subprocess.run(["rustc", "+nightly", "--print", "sysroot"], capture_output=True, text=True, check=True)
    return os.path.join(out.stdout.strip(), "lib")


def tree_hash(repo):
    """hash of every source/manifests file cargo would look at (tracked + untracked, not ignored)."""
    r = subprocess.run(["git", "-C", repo, "ls-files", "-co", "--exclude-standard", "-z"], capture_output=True)
    h = hashlib.sha256()
    if r.returncode == 0 and os.path.isdir(os.path.join(repo, ".git")) or os.path.isfile(os.path.join(repo, ".git")):
        files = sorted(f for f in r.stdout.decode().split("\0") if f)
    else:
        files = []
        for root, dirs, fs in os.walk(repo):
            dirs[:] = [d for d in dirs if d not in ("target", ".git")]
            for f in fs:
                files.append(os.path.relpath(os.path.join(root, f), repo))
        files.sort()
    for f in files:
        if not (f.endswith(".rs") or f.endswith(".toml") or f.endswith("Cargo.lock") or f.endswith(".md")):
            continue
        p = os.path.join(repo, f)
        if not os.path.isfile(p):
            continue
        h.update(f.encode())
        h.update(b"\0")
        with open(p, "rb") as fh:
            h.update(fh.read())
        h.update(b"\0")
    for extra in (DRIVER,):
        if os.path.exists(extra):
            with open(extra, "rb") as fh:
                h.update(hashlib.sha256(fh.read()).digest())
    return h.hexdigest()[:20]


def build_driver():
    if os.path.exists(DRIVER):
        src = os.path.join(VERIF, "driver", "src", "main.rs")
        if os.path.getmtime(src) <= os.path.getmtime(DRIVER):
            return
    log("[engine] building fact extractor")
    env = dict(os.environ, CARGO_NET_OFFLINE="true")
    subprocess.run(["cargo", "+nightly", "build", "--release", "--offline"], cwd=os.path.join(VERIF, "driver"),
                   env=env, check=True, stdout=sys.stderr)


def ensure_facts(config="default", repo=None):
    """returns the directory holding one fact file per workspace crate for repo's current tree."""
    repo = repo or REPO
    os.makedirs(CACHE, exist_ok=True)
    lockf = open(os.path.join(CACHE, "lock"), "w")
    fcntl.flock(lockf, fcntl.LOCK_EX)
    try:
        build_driver()
        th = tree_hash(repo)
        fdir = os.path.join(CACHE, "facts", th, config)
        if all(os.path.exists(os.path.join(fdir, c + ".json")) for c in EXPECTED):
            try:
                os.utime(fdir)   # most recently used: never evicted by scratch-copy fact sets
            except OSError:
                pass
            return fdir
        tdir = os.path.join(CACHE, "target-" + config)
        # cargo's freshness cache would skip the wrapper: drop the members' fingerprints
        for pat in ("wac-*", "programmatic-example-*"):
            for d in glob.glob(os.path.join(tdir, "debug", ".fingerprint", pat)):
                shutil.rmtree(d, ignore_errors=True)
        tmp = fdir + ".tmp%d" % os.getpid()
        shutil.rmtree(tmp, ignore_errors=True)
        os.makedirs(tmp)
        env = dict(os.environ)
        env.update({
            "LD_LIBRARY_PATH": sysroot_lib() + ":" + env.get("LD_LIBRARY_PATH", ""),
            "RUSTFLAGS": "-Zmir-opt-level=0 -Awarnings",
            "RUSTC_WRAPPER": SHIM,
            "RUSTC_WORKSPACE_WRAPPER": DRIVER,
            "WACFACTS_DIR": tmp,
            "CARGO_TARGET_DIR": tdir,
            "CARGO_NET_OFFLINE": "true",
            # incremental compilation would mark unchanged bodies green and never call the
            # overridden MIR provider for them
            "CARGO_INCREMENTAL": "0",
        })
        cmd = ["cargo", "+nightly", "check", "--offline", "--workspace"]
        if config == "all":
            cmd.append("--all-features")
        elif config == "wat":
            cmd += ["--features", "wat"]
        t0 = time.time()
        log("[engine] extracting facts (%s) from %s" % (config, repo))
        r = subprocess.run(cmd, cwd=repo, env=env, stdout=subprocess.PIPE, stderr=subprocess.STDOUT, text=True)
        if r.returncode != 0:
            log(r.stdout[-6000:])
            raise SystemExit("fact extraction failed: cargo check exited %d (the tree does not compile?)" % r.returncode)
        missing = [c for c in EXPECTED if not os.path.exists(os.path.join(tmp, c + ".json"))]
        if missing:
            log(r.stdout[-3000:])
            raise SystemExit("fact extraction produced no facts for: %s" % missing)
        os.makedirs(os.path.dirname(fdir), exist_ok=True)
        shutil.rmtree(fdir, ignore_errors=True)
        os.rename(tmp, fdir)
        log("[engine] facts ready in %.1fs -> %s" % (time.time() - t0, fdir))
        # keep the cache small: drop all but the 40 most recent fact sets
        root = os.path.join(CACHE, "facts")
        sets = sorted((os.path.getmtime(os.path.join(root, d)), d) for d in os.listdir(root))
        for _, d in sets[:-40]:
            shutil.rmtree(os.path.join(root, d), ignore_errors=True)
        return fdir
    finally:
        fcntl.flock(lockf, fcntl.LOCK_UN)
        lockf.close()


class Ctx:
    """collects obligations for one property run."""

    def __init__(self, prop, tier, db, prov=None):
        self.prop = prop
        self.tier = tier
        self.db = db
        self.prov = prov
        self.obs = []          # dicts
        self.floors = {}
        self.notes = []
        self.analysed_fns = set()

    def ob(self, rule, key, ok, why, site=None, nontrivial=True, detail=None):
        """record an obligation (rule instance). key must not contain line numbers."""
        self.obs.append({"rule": rule, "key": "%s|%s" % (rule, key), "ok": bool(ok), "why": why,
                         "site": site or "", "nontrivial": nontrivial, "detail": detail})
        return ok

    def lost(self, rule, what):
        """an anchor the rule needs is missing: fail closed."""
        self.ob(rule, "anchor-lost:" + what, False, "anchor lost: " + what)

    def floor(self, rule, n):
        self.floors[rule] = n

    def touch(self, fn):
        self.analysed_fns.add(fn.id if hasattr(fn, "id") else fn)

    def count(self, rule):
        return sum(1 for o in self.obs if o["rule"] == rule)


_KNOWN = None


def _known_keys():
    global _KNOWN
    if _KNOWN is None:
        _KNOWN = {k["key"] for k in load_known() if k.get("status") == "known"}
    return _KNOWN


class AliasCtx:
    """runs another property's rules under this property: obligations of the rules listed in `mapping` are recorded under the
    mapped rule id (key prefixed with the source rule), everything else is dropped."""

    def __init__(self, ctx, mapping):
        self.ctx, self.mapping = ctx, mapping
        self.db, self.prov = ctx.db, ctx.prov
        self.repo_root = getattr(ctx, "repo_root", None)
        self.facts_dir = getattr(ctx, "facts_dir", None)
        self.wat_pass = True      # (an aliased C18 pass never re-extracts)
        self.obs = []
        self.floors = {}

    def ob(self, rule, key, ok, why, **kw):
        if rule in self.mapping:
            if not ok and "%s|%s" % (rule, key) in _known_keys():
                return None      # a recorded known finding is reported (once) by the check of its own property
            return self.ctx.ob(self.mapping[rule], "%s/%s" % (rule, key), ok, why, **kw)

    def touch(self, f):
        self.ctx.touch(f)

    def floor(self, rule, n):
        pass

    def lost(self, rule, what):
        if rule in self.mapping:
            self.ctx.lost(self.mapping[rule], what)

    def count(self, rule):
        return 0


def load_known():
    p = os.path.join(VERIF, "known_findings.json")
    if not os.path.exists(p):
        return []
    with open(p) as f:
        return json.load(f)["findings"]


def finish(ctx, t0, level="other", explanation="", trusted=None, assumptions=None, extra=None):
    prop = ctx.prop
    known = {k["key"]: k for k in load_known() if k.get("property") == prop and k.get("status") == "known"}
    fixed = [k for k in load_known() if k.get("property") == prop and k.get("status") == "fixed"]
    # floors: a rule matching fewer instances than confirmed by hand fails closed
    for rule, n in ctx.floors.items():
        c = ctx.count(rule)
        if c < n:
            ctx.ob(rule, "floor", False, "rule matched %d instances, floor is %d (anchor lost / vacuous rule)" % (c, n))
    violations = []
    known_hits = []
    for o in ctx.obs:
        if o["ok"]:
            continue
        if o["key"] in known:
            known_hits.append(o)
        else:
            violations.append(o)
    os.makedirs(os.path.join(VERIF, "evidence", "replay"), exist_ok=True)
    for o in known_hits:
        print("KNOWN-FINDING: property=%s %s — %s" % (prop, o["key"], known[o["key"]].get("what_fails", o["why"])))
    lines = []
    for i, o in enumerate(violations):
        rp = os.path.join(VERIF, "evidence", "replay", "%s-%d.json" % (prop, i))
        with open(rp, "w") as f:
            json.dump({"property": prop, "rule": o["rule"], "key": o["key"], "site": o["site"], "why": o["why"],
                       "detail": o["detail"]}, f, indent=1, default=str)
        log("  violation %s @ %s: %s" % (o["key"], o["site"], o["why"]))
        lines.append("VIOLATION property=%s replay=%s" % (prop, rp))
    # de-duplicated obligations
    keys = {}
    for o in ctx.obs:
        keys.setdefault(o["key"], o)
    n_ob = len(keys)
    n_ok = sum(1 for o in keys.values() if o["ok"])
    n_nt = sum(1 for o in keys.values() if o["nontrivial"])
    rules = sorted({o["rule"] for o in ctx.obs})
    per_rule = {r: {"instances": sum(1 for o in keys.values() if o["rule"] == r),
                    "discharged": sum(1 for o in keys.values() if o["rule"] == r and o["ok"])} for r in rules}
    samples = []
    seen_rules = set()
    for o in keys.values():
        if o["rule"] not in seen_rules or not o["ok"]:
            seen_rules.add(o["rule"])
            samples.append({"rule": o["rule"], "instance": o["key"], "site": o["site"],
                            "verdict": "discharged" if o["ok"] else ("known-finding" if o["key"] in known else "violation"),
                            "why": o["why"]})
        if len(samples) >= 40:
            break
    stats = ctx.db.stats if ctx.db else {}
    ev = {
        "property_id": prop,
        "tier": ctx.tier,
        "seed": int(os.environ.get("VERIF_SEED", "0") or 0),
        "level": level,
        "wall_s": round(time.time() - t0, 2),
        "violations": len(violations),
        "coverage": {
            "explanation": explanation,
            "rule": "one obligation per rule instance (call site / field / table row / production); non-trivial = the instance constrains code on the property's mechanism (not a bookkeeping floor)",
            "evaluations": n_ob,
            "distinct_nontrivial": n_nt,
            "obligations": n_ob,
            "discharged": n_ok,
            "exhaustive": True,
            "checker_cmd": "./check %s --tier %s" % (prop, ctx.tier),
            "trusted_base": trusted or ["rustc nightly MIR construction and callee resolution", "driver/ fact extractor", "lib/ rule library", "documented semantics of petgraph / indexmap / wasm-encoder / wasmparser / logos"],
            "per_rule": per_rule,
            "analysed": {
                "crates": sorted(stats.keys()),
                "bodies": sum(s["bodies"] for s in stats.values()),
                "call_sites": sum(s["calls"] for s in stats.values()),
                "resolved_callees": sum(s["resolved"] for s in stats.values()),
                "functions_inspected_by_rules": len(ctx.analysed_fns),
            },
            "known_findings": [o["key"] for o in known_hits],
            "fixed_findings": [k["key"] for k in fixed],
            "samples": samples,
            "notes": ctx.notes,
        },
        "assumptions": assumptions or ["third-party crates behave as documented",
                                       "facts are extracted for the default feature set (wit + registry)"],
    }
    if extra:
        ev["coverage"].update(extra)
    with open(os.path.join(VERIF, "evidence", "%s.json" % prop), "w") as f:
        json.dump(ev, f, indent=1, default=str)
    print("property=%s tier=%s obligations=%d discharged=%d known=%d violations=%d rules=%s" % (
        prop, ctx.tier, n_ob, n_ok, len(known_hits), len(violations), ",".join(rules)))
    for l in lines:
        print(l)
    return 1 if violations else 0
