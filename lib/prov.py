"""Provenance: flow-insensitive backward def-use slices inside a body (and across closure
boundaries).  A slice over-approximates the set of values that may flow into an operand:
every call whose result flows in contributes all of its arguments."""
from collections import defaultdict
from facts import Place, Operand, strip_generics


class Slice:
    def __init__(self):
        self.calls = []          # (fn, Term)
        self.fields = set()      # (name, owner, variant)
        self.params = set()      # (fn id, local index)
        self.consts = set()      # (kind, value)
        self.aggs = set()        # (adt, variant) / ("closure", id) / ("tuple",)
        self.locals = set()      # (fn id, local)
        self.discr = set()       # adt paths whose discriminant was read
        self.binops = set()
        self.casts = set()

    def call_paths(self):
        return {t.path for _, t in self.calls}

    def has_call(self, pred):
        if isinstance(pred, str):
            return any((t.path or "").endswith(pred) for _, t in self.calls)
        return any(pred(t) for _, t in self.calls)

    def has_field(self, name, owner_suffix=None):
        for (n, o, v) in self.fields:
            if n == name and (owner_suffix is None or o.endswith(owner_suffix)):
                return True
        return False

    def field_names(self, owner_suffix=None):
        return {n for (n, o, v) in self.fields if owner_suffix is None or o.endswith(owner_suffix)}

    def has_param(self, idx, fn_id=None):
        return any(i == idx and (fn_id is None or f == fn_id) for f, i in self.params)

    def summary(self):
        return {
            "calls": sorted({t.path for _, t in self.calls if t.path})[:40],
            "fields": sorted("%s.%s" % (o.split("::")[-1] + ("::" + v if v and v != o.split("::")[-1] else ""), n) for n, o, v in self.fields)[:40],
            "params": sorted("%s#%d" % (f.split("::")[-1], i) for f, i in self.params),
            "consts": sorted(map(str, self.consts))[:20],
        }


class Defs:
    """definition sites per local of one body."""

    def __init__(self, fn):
        self.fn = fn
        self.defs = defaultdict(list)   # local -> [("stmt", Stmt) | ("call", Term) | ("mutarg", Term)]
        refmut = {}
        for b in fn.blocks:
            if b.cleanup:
                continue
            for s in b.stmts:
                self.defs[s.lhs.local].append(("stmt", s))
                if s.rv.k == "ref" and s.rv.j.get("mut"):
                    if not s.lhs.proj:
                        refmut.setdefault(s.lhs.local, set()).add(s.rv.place.local)
            t = b.term
            if t.k == "call":
                self.defs[t.dest.local].append(("call", t))
            elif t.k == "yield":
                self.defs[t.dest.local].append(("yield", t))
        # &mut temporaries may be copied/reborrowed: propagate one level (temp = &mut *temp2)
        changed = True
        while changed:
            changed = False
            for l, roots in list(refmut.items()):
                for r in list(roots):
                    for r2 in refmut.get(r, ()):  # reborrow of a reborrow
                        if r2 not in roots:
                            roots.add(r2)
                            changed = True
        for b in fn.blocks:
            if b.cleanup:
                continue
            t = b.term
            if t.k == "call":
                for a in t.args:
                    if a.place is not None and not a.place.proj and a.place.local in refmut:
                        for root in refmut[a.place.local]:
                            self.defs[root].append(("mutarg", t))
        self.refmut = refmut


class Prov:
    def __init__(self, db):
        self.db = db
        self._defs = {}
        self._closure_sites = None

    def defs(self, fn):
        d = self._defs.get(fn.id)
        if d is None:
            d = self._defs[fn.id] = Defs(fn)
        return d

    def closure_sites(self):
        """closure id -> [(parent fn, Stmt aggregate creating it)]"""
        if self._closure_sites is None:
            m = defaultdict(list)
            for f in self.db.fns.values():
                for s in f.stmts():
                    if s.rv.k == "agg" and "closure" in s.rv.j:
                        m[s.rv.j["closure"]].append((f, s))
            self._closure_sites = m
        return self._closure_sites

    def slice(self, fn, what, follow_closures=True, follow_mut=False, stop_call=None, max_nodes=20000):
        """what: Operand | Place | int (local).  stop_call(term)->bool: do not look through that call."""
        sl = Slice()
        work = []
        seen = set()

        def push_local(f, l):
            key = (f.id, l)
            if key not in seen:
                seen.add(key)
                work.append((f, l))

        def push_place(f, p):
            for (n, o, v) in p.fields():
                sl.fields.add((n, o, v))
            for pr in p.proj:
                if pr[0] == "index":
                    push_local(f, pr[1])
            # tuple-field sensitivity: `_7.1...` where _7 is only ever assigned tuple aggregates follows operand 1 only
            if p.proj and p.proj[0][0] == "field" and p.proj[0][2] == "tuple" and p.proj[0][1].isdigit():
                ds = [x for x in self.defs(f).defs.get(p.local, ()) if x[0] != "mutarg"]
                if ds and all(k == "stmt" and st.rv.k == "agg" and st.rv.j.get("tuple") and not st.lhs.proj for k, st in ds):
                    n_ = int(p.proj[0][1])
                    sl.locals.add((f.id, p.local))
                    for k, st in ds:
                        if n_ < len(st.rv.ops):
                            push_operand(f, st.rv.ops[n_])
                    return
            # closure upvar sensitivity: `(*_1).N` / `_1.N` in a closure body follows captured operand N only
            if p.local == 1 and "{closure" in f.id and follow_closures:
                fp = [pr for pr in p.proj if pr[0] == "field"]
                if fp and fp[0][2].startswith("closure:") and fp[0][1].isdigit():
                    n_ = int(fp[0][1])
                    sites = self.closure_sites().get(f.id, ())
                    if sites:
                        sl.locals.add((f.id, 1))
                        for parent, st in sites:
                            if n_ < len(st.rv.ops):
                                push_operand(parent, st.rv.ops[n_])
                        return
            push_local(f, p.local)

        def push_operand(f, o):
            if o.place is not None:
                push_place(f, o.place)
            elif o.const is not None:
                v = o.const_value()
                if v:
                    sl.consts.add(v)

        if isinstance(what, Operand):
            push_operand(fn, what)
        elif isinstance(what, Place):
            push_place(fn, what)
        else:
            push_local(fn, what)

        while work and len(seen) < max_nodes:
            f, l = work.pop()
            sl.locals.add((f.id, l))
            if 1 <= l <= f.arg_count:
                sl.params.add((f.id, l))
                if follow_closures and "{closure" in f.id:
                    self._closure_param(f, l, push_operand, push_place, sl)
            d = self.defs(f)
            for kind, site in d.defs.get(l, ()):
                if kind == "stmt":
                    rv = site.rv
                    if rv.k == "agg":
                        j = rv.j
                        if "closure" in j:
                            sl.aggs.add(("closure", j["closure"]))
                            # a closure value flows in: what it returns may flow in too
                            cf = self.db.fns.get(j["closure"])
                            if cf is not None and follow_closures:
                                push_local(cf, 0)
                        elif "adt" in j:
                            sl.aggs.add((j["adt"], j.get("variant")))
                        else:
                            sl.aggs.add(("tuple",))
                    if rv.k == "discr":
                        sl.discr.add(rv.j.get("adt"))
                    if rv.k in ("bin", "un"):
                        sl.binops.add(rv.op)
                    if rv.k == "cast":
                        sl.casts.add(rv.j.get("kind"))
                    if rv.place is not None:
                        push_place(f, rv.place)
                    for o in rv.ops:
                        push_operand(f, o)
                elif kind == "call" or (kind == "mutarg" and follow_mut):
                    sl.calls.append((f, site))
                    if stop_call and stop_call(site):
                        continue
                    for a in site.args:
                        push_operand(f, a)
                    if site.callee.get("path") == "<indirect>" and "op" in site.callee:
                        push_operand(f, Operand(site.callee["op"]))
            # closure upvars: _1.N in a closure body -> captured operand N at the creation site
            if l == 1 and follow_closures and "{closure" in f.id:
                pass  # handled through field projections below
        return sl

    def _closure_param(self, f, l, push_operand, push_place, sl):
        """closure param (l >= 2): values come from the other arguments of the higher-order call
        that receives the closure; upvar struct (l == 1): captured operands."""
        for parent, s in self.closure_sites().get(f.id, ()):
            if l == 1:
                for o in s.rv.ops:
                    push_operand(parent, o)
            else:
                # find calls in parent that take the closure local as an argument
                cl_local = s.lhs.local
                for t in parent.calls():
                    locs = [a.place.local for a in t.args if a.place is not None and not a.place.proj]
                    if cl_local in locs or self._flows_local(parent, cl_local, locs):
                        sl.calls.append((parent, t))
                        for a in t.args:
                            if a.place is not None and a.place.local == cl_local:
                                continue
                            push_operand(parent, a)

    def _flows_local(self, fn, src, dsts):
        """src local is moved/copied/borrowed (one or two steps) into one of dsts."""
        d = self.defs(fn)
        for x in dsts:
            frontier = [x]
            for _ in range(3):
                nxt = []
                for y in frontier:
                    for kind, site in d.defs.get(y, ()):
                        if kind == "stmt":
                            ls = []
                            if site.rv.place is not None:
                                ls.append(site.rv.place.local)
                            ls += [o.place.local for o in site.rv.ops if o.place is not None]
                            if src in ls:
                                return True
                            nxt += ls
                frontier = nxt
        return False

    # ---- convenience
    def arg_slice(self, fn, term, i, **kw):
        return self.slice(fn, term.args[i], **kw)

    def const_of(self, fn, operand, depth=6):
        """constant-propagate an operand through single-definition copies: returns const tuple,
        ('variant', adt, name) for unit enum aggregates, or None."""
        o = operand
        d = self.defs(fn)
        for _ in range(depth):
            if o.const is not None:
                return o.const_value()
            if o.place is None or any(pr[0] != "deref" for pr in o.place.proj):
                return None
            ds = [x for x in d.defs.get(o.place.local, ()) if x[0] != "mutarg"]
            if len(ds) != 1 or ds[0][0] != "stmt":
                return None
            rv = ds[0][1].rv
            if rv.k == "agg" and "adt" in rv.j and not rv.ops:
                return ("variant", rv.j["adt"], rv.j["variant"])
            if rv.k == "use":
                o = rv.ops[0]
                continue
            if rv.k == "cast":
                o = rv.ops[0]
                continue
            if rv.k == "ref" and all(pr[0] == "deref" for pr in rv.place.proj):
                o = Operand({"copy": {"l": rv.place.local, "p": []}})
                continue
            return None
        return None


TRANSPARENT_SUFFIXES = (
    "::index", "::index_mut", "::deref", "::deref_mut", "::as_ref", "::as_mut", "::as_deref", "::borrow",
    "::borrow_mut", "::unwrap", "::expect", "::clone", "::cloned", "::copied", "::as_str", "::to_owned",
    "::to_string", "::into", "::from", "::as_slice", "::unwrap_or_default", "::branch", "::into_iter", "::iter",
)


def is_transparent(term):
    p = term.path or ""
    return p.endswith(TRANSPARENT_SUFFIXES)


def narrow(prov, fn, what):
    """slice that only looks through 'transparent' calls (accessors / conversions); other calls are
    recorded but their arguments are not followed.  Used to identify *which object* an operand is."""
    return prov.slice(fn, what, stop_call=lambda t: not is_transparent(t), follow_mut=False)
