"""Positive controls: one-site source mutants that still compile, each with the rule instance that must
fire.  Run on scratch copies of /repo (never on /repo itself)."""
import os, sys, shutil, subprocess, tempfile, importlib, json, time
import engine, facts, prov as provmod

HERE = os.path.dirname(os.path.abspath(__file__))
sys.path.insert(0, os.path.join(os.path.dirname(HERE), "selftest"))


def scratch_copy(repo=None):
    repo = repo or engine.REPO
    d = tempfile.mkdtemp(prefix="verif-st.")
    out = subprocess.run(["git", "-C", repo, "ls-files", "-co", "--exclude-standard", "-z"], capture_output=True, check=True).stdout
    for f in out.decode().split("\0"):
        if not f:
            continue
        src = os.path.join(repo, f)
        if not os.path.isfile(src):
            continue
        # sources and manifests only
        if not (f.endswith((".rs", ".toml", ".lock", ".md", ".wit", ".wac", ".wat")) or "/" not in f):
            continue
        dst = os.path.join(d, f)
        os.makedirs(os.path.dirname(dst), exist_ok=True)
        shutil.copy2(src, dst)
    return d


def apply_mutant(root, m):
    p = os.path.join(root, m["file"])
    s = open(p).read()
    if m.get("edits"):
        for old, new in m["edits"]:
            if s.count(old) != 1:
                raise RuntimeError("mutant %s: edit pattern occurs %d times in %s" % (m["id"], s.count(old), m["file"]))
            s = s.replace(old, new)
        open(p, "w").write(s)
        return
    cnt = s.count(m["old"])
    if cnt != 1 and not m.get("multi"):
        raise RuntimeError("mutant %s: pattern occurs %d times in %s (must be exactly once)" % (m["id"], cnt, m["file"]))
    if cnt == 0:
        raise RuntimeError("mutant %s: pattern not found in %s" % (m["id"], m["file"]))
    open(p, "w").write(s.replace(m["old"], m["new"]))


_DBS = {}


def run_rules(pid, fdir, tier="quick", root=None):
    mod = importlib.import_module(pid.lower())
    if fdir not in _DBS:
        _DBS.clear()                      # one fact set at a time: the slices of a scratch copy are reused by all properties
        db_ = facts.DB(fdir)
        _DBS[fdir] = (db_, provmod.Prov(db_))
    db, pv = _DBS[fdir]
    ctx = engine.Ctx(pid, tier, db, pv)
    ctx.facts_dir = fdir
    ctx.repo_root = root
    try:
        mod.run(ctx)
    except KeyError as e:
        ctx.ob("R%s.0" % pid[1:], "anchor-lost:%s" % e, False, "anchor lost: %s" % e)
    known = {k["key"] for k in engine.load_known() if k.get("status") == "known"}
    for rule, n in ctx.floors.items():
        if ctx.count(rule) < n:
            ctx.ob(rule, "floor", False, "floor")
    return [o for o in ctx.obs if not o["ok"] and o["key"] not in known]


def selftest(pid, only=None, verbose=True):
    """returns (n_run, failures[list of str])"""
    import mutants
    # the mutants of this property, plus (thorough tier of a single property) every behaviour-preserving control, judged by
    # this property's rules only
    ms = [m for m in mutants.MUTANTS if (m["prop"] == pid or (m.get("control") and m["prop"] == "ALL" and pid != "ALL" and only is None)) and (only is None or m["id"] == only)]
    failures = []
    results = []
    for m in ms:
        t0 = time.time()
        root = scratch_copy()
        try:
            apply_mutant(root, m)
            try:
                fdir = engine.ensure_facts("default", repo=root)
            except SystemExit as e:
                failures.append("%s: mutant does not compile (%s)" % (m["id"], e))
                continue
            if pid == "ALL":
                import json as _j
                man = _j.load(open(os.path.join(engine.VERIF, "MANIFEST.json")))
                viol = []
                for c in man["checks"]:
                    viol += run_rules(c["property_id"], fdir, root=root)
            else:
                viol = run_rules(pid, fdir, root=root)
            keys = [v["key"] for v in viol]
            if m.get("control"):
                ok = not viol
                msg = "behaviour-preserving control: no rule may fire; fired: %s" % keys
            else:
                ok = any(m["expect"] in k for k in keys)
                msg = "expected a violation matching %r, got %s" % (m["expect"], keys)
            results.append({"mutant": m["id"], "expect": m.get("expect"), "fired": keys, "ok": ok, "wall_s": round(time.time() - t0, 1)})
            if verbose:
                engine.log("[selftest] %s %s: %s" % ("ok  " if ok else "FAIL", m["id"], keys))
            if not ok:
                failures.append("%s: %s" % (m["id"], msg))
        finally:
            shutil.rmtree(root, ignore_errors=True)
    return results, failures


if __name__ == "__main__":
    pid = sys.argv[1].upper()
    only = sys.argv[2] if len(sys.argv) > 2 else None
    res, fails = selftest(pid, only)
    print(json.dumps(res, indent=1))
    for f in fails:
        print("SELFTEST-FAIL", f)
    sys.exit(1 if fails else 0)
