"""C08 — decoding a package preserves its component type; re-encoding stays satisfiable (structural part)."""
import re
from cfg import CFG, error_blocks
from prov import narrow
from pat import *
from facts import Operand, strip_generics
import tables, c01

EXPLANATION = ("table and coverage rules over wac-types' converters and wac-graph's type re-encoder: every struct-to-struct conversion "
               "(table / memory / global / ref types, both directions) assigns each target field from the same-named source field "
               "(reviewed aliases initial<->minimum, val_type<->content_type); every enum conversion maps a variant to its namesake; "
               "the function-type converter and emitter cover params, result and the async flag; alias chains are peeled to a "
               "fixpoint when looking for a type's owner; the converter caches are written under the key they are read with; the "
               "re-encoder handles every item kind (no panicking wildcard) and resets its use-alias table (C01 R01.2). Necessary "
               "conditions; fidelity of use/ownership synthesis is not decided")

FIELD_ALIASES = {("initial", "minimum"), ("minimum", "initial"), ("val_type", "content_type"), ("content_type", "val_type"),
                 ("is_async", "async_"), ("async_", "is_async")}
CONV_RE = re.compile(r"wac_types::<.* as core::convert::(Try)?From<.*>>::(try_)?from$")


def struct_conversions(ctx):
    """R08.1"""
    db, prov = ctx.db, ctx.prov
    fns = [f for f in db.fns.values() if CONV_RE.match(f.id) and "core::" in f.id] + [db.fn("wac_graph::encoding::TypeEncoder::entity_type")]
    n = 0
    for f in fns:
        ctx.touch(f)
        for s in f.stmts():
            if s.rv.k != "agg" or "adt" not in s.rv.j:
                continue
            names = s.rv.j.get("fields", [])
            if len(names) < 2 or any(nm.isdigit() for nm in names):
                continue
            adt = s.rv.j["adt"]
            if not (adt.startswith(("wac_types::core::", "wasm_encoder::core::", "wasm_encoder::component::"))):
                continue
            for nm, op in zip(names, s.rv.ops):
                sl = prov.slice(f, op)
                src = {x for x, o, v in sl.fields if not o.startswith(("core::option", "core::result", "core::ops", "tuple", "closure")) and not x.isdigit()}
                if not src:
                    continue   # constant / computed field
                n += 1
                ok = nm in src or any((nm, x) in FIELD_ALIASES for x in src)
                ctx.ob("R08.1", "field|%s|%s::%s.%s" % (tables.short_fn(f.id), adt.split("::")[-1], s.rv.j.get("variant", ""), nm), ok,
                       "`%s` is assigned from the same-named source field" % nm if ok else
                       "`%s.%s` is assigned from the source field(s) %s (two same-typed fields are swapped)" % (adt.split("::")[-1], nm, sorted(src)),
                       site="%s in %s" % (s.span, f.id))
    ctx.floor("R08.1", 20)


def func_type_coverage(ctx):
    """R08.3"""
    db, prov = ctx.db, ctx.prov
    conv = db.fn("wac_types::package::TypeConverter::component_func_type")
    ctx.touch(conv)
    read = set()
    for b in db.with_closures(conv):
        for s in b.stmts():
            for pl in [s.rv.place] + [o.place for o in s.rv.ops]:
                if pl is not None:
                    read |= {(n, o) for n, o, v in pl.fields()}
    src = [k for k in db.adts if k.endswith("types::ComponentFuncType") and k.startswith("wasmparser")]
    ctx.ob("R08.3", "anchor", len(src) == 1, "wasmparser ComponentFuncType ADT found: %s" % src, nontrivial=False)
    for k in src:
        for fl in db.adts[k]["variants"][0]["fields"]:
            if fl["name"] == "info":
                continue   # validator-internal size bookkeeping (TypeInfo), not part of the signature
            ok = (fl["name"], k) in read
            ctx.ob("R08.3", "decode|ComponentFuncType." + fl["name"], ok, "read by the function-type converter" if ok else
                   "`%s` of the decoded function type is never read: it is lost when a package is loaded" % fl["name"], site=conv.span)
    # the FuncType it builds gets every field from the decoded type
    for s in conv.stmts():
        if s.rv.k == "agg" and s.rv.j.get("adt", "").endswith("component::FuncType"):
            for nm, op in zip(s.rv.j["fields"], s.rv.ops):
                sl = prov.slice(conv, op)
                srcf = {x for x, o, v in sl.fields if o.endswith("ComponentFuncType")}
                want = {"params": "params", "result": "result", "is_async": "async_"}[nm]
                ctx.ob("R08.3", "decode-assign|FuncType." + nm, want in srcf, "FuncType.%s comes from the decoded `%s`" % (nm, want) if want in srcf else
                       "FuncType.%s does not come from the decoded `%s` (got %s)" % (nm, want, sorted(srcf)), site=s.span)
    enc = db.fn("wac_graph::encoding::TypeEncoder::func_type")
    ctx.touch(enc)
    reade = set()
    for b in db.with_closures(enc):
        for s in b.stmts():
            for pl in [s.rv.place] + [o.place for o in s.rv.ops]:
                if pl is not None:
                    reade |= {n for n, o, v in pl.fields() if o.endswith("component::FuncType")}
        for t in b.calls():
            for a in t.args:
                if a.place is not None:
                    reade |= {n for n, o, v in a.place.fields() if o.endswith("component::FuncType")}
    for nm in ("params", "result", "is_async"):
        ctx.ob("R08.3", "encode|FuncType." + nm, nm in reade, "emitted by the function-type encoder" if nm in reade else "FuncType.%s is not emitted when a function type is re-encoded" % nm, site=enc.span)
    emitted = {t.path.rsplit("::", 1)[1] for t in enc.calls() if "ComponentFuncTypeEncoder" in (t.path or "")}
    ctx.ob("R08.3", "encode|calls", {"params", "result", "async_"} <= emitted, "the encoder calls async_/params/result: %s" % sorted(emitted))


def alias_fixpoint(ctx):
    """R08.4: alias peeling (one step per call) is iterated."""
    db, prov = ctx.db, ctx.prov
    n = 0
    for f in db.fns.values():
        if f.crate != "wac_types":
            continue
        for t in f.calls():
            if (t.path or "").endswith("::peel_alias"):
                n += 1
                ctx.touch(f)
                cfg = CFG(f)
                root = db.fns.get(f.id.split("::{closure")[0]) or f
                recursive = any(c.path == root.id for c in root.calls())
                ok = cfg.reaches(t.bb, t.bb) or recursive
                ctx.ob("R08.4", "peel-to-fixpoint|" + f.id.split("::", 1)[1], ok, "aliases are peeled in a loop until an owner is found or no alias is left" if ok else
                       "`peel_alias` removes one alias step and is not iterated: a type reached through a longer `use` chain has no owner", site="%s in %s" % (t.span, f.id))
    ctx.ob("R08.4", "count", n >= 1, "peel_alias call sites: %d" % n, nontrivial=False)


def cache_keys(ctx):
    """R08.5: each TypeConverter method that reads the cache under `key` writes it back under the same key local."""
    db, prov = ctx.db, ctx.prov
    n = 0
    for f in db.fns.values():
        if not f.id.startswith("wac_types::package::TypeConverter::") or "{closure" in f.id:
            continue
        gets = [t for t in f.calls() if (t.path or "").endswith("HashMap::get") and narrow(prov, f, t.args[0]).has_field("cache", "package::TypeConverter")]
        ins = [t for t in f.calls() if (t.path or "").endswith("HashMap::insert") and narrow(prov, f, t.args[0]).has_field("cache", "package::TypeConverter")]
        if not gets or not ins:
            continue
        ctx.touch(f)
        gk = set().union(*[narrow(prov, f, t.args[1]).locals for t in gets])
        for t in ins:
            n += 1
            ik = narrow(prov, f, t.args[1]).locals
            ok = bool(gk & ik)
            ctx.ob("R08.5", "cache-key|%s@%d" % (f.id.rsplit("::", 1)[1], n), ok, "the converted entity is cached under the key it was looked up with" if ok else
                   "the cache is written under a different key than it is read with", site="%s in %s" % (t.span, f.id))
    ctx.floor("R08.5", 5)


def origin_tuple_field(prov, f, op, depth=8):
    """follow copies / borrows / clones of an operand back to a place `base.k` of a tuple: returns k (str) or None"""
    d = prov.defs(f)
    pl = op.place
    for _ in range(depth):
        if pl is None:
            return None
        tf = [pr for pr in pl.proj if pr[0] == "field" and pr[2] == "tuple"]
        if tf:
            return tf[-1][1]
        ds = [x for x in d.defs.get(pl.local, ()) if x[0] in ("stmt", "call")]
        if len(ds) != 1:
            return None
        kind, site = ds[0]
        if kind == "stmt":
            if site.rv.k in ("ref", "rawptr") and site.rv.place is not None:
                pl = site.rv.place
            elif site.rv.k in ("use", "cast") and site.rv.ops and site.rv.ops[0].place is not None:
                pl = site.rv.ops[0].place
            else:
                return None
        else:
            nm = (site.path or "").rsplit("::", 1)[-1]
            if nm in ("clone", "to_owned", "to_string", "as_str", "deref", "as_ref", "borrow", "into", "from") and site.args and site.args[0].place is not None:
                pl = site.args[0].place
            else:
                return None
    return None


def pair_positions(ctx):
    """R08.8 positional fidelity: when the decoder or the type encoder rebuilds a pair from the components of a pair
    (`((module, name), ty)` keys of core module imports, (name, type) entries …), component k of the new tuple comes from
    component k of the old one; two same-typed components copied crosswise swap e.g. a core import's module and field name."""
    db, prov = ctx.db, ctx.prov
    n = 0
    kc = {}
    for f in sorted(db.fns.values(), key=lambda x: x.id):
        if not (f.id.startswith("wac_types::package::") or f.id.startswith("wac_graph::encoding::")) or f.from_expansion:
            continue
        for s in f.stmts():
            if not (s.rv.k == "agg" and s.rv.j.get("tuple") and len(s.rv.ops) >= 2):
                continue
            org = [origin_tuple_field(prov, f, o) if o.place is not None else None for o in s.rv.ops]
            tys = [f.local_ty(o.place.local) if o.place is not None and not o.place.proj else None for o in s.rv.ops]
            if sum(1 for x in org if x is not None) < 2:
                continue
            n += 1
            ctx.touch(f)
            swapped = [(i, j) for i in range(len(org)) for j in range(i + 1, len(org))
                       if org[i] is not None and org[j] is not None and org[i] == str(j) and org[j] == str(i) and tys[i] is not None and tys[i] == tys[j]]
            kc[f.id] = kc.get(f.id, 0) + 1
            ctx.ob("R08.8", "pair|%s#%d" % (re.sub(r"\{closure#\d+\}", "{closure}", f.id.split("::", 1)[1]), kc[f.id]), not swapped,
                   "components are copied position by position" if not swapped else
                   "components %s of the rebuilt tuple are copied crosswise from the source tuple (same type `%s`): the two names change places" % (swapped, tys[swapped[0][0]]),
                   site="%s in %s" % (s.span, f.id))
    ctx.ob("R08.8", "count", n >= 1, "rebuilt pairs checked: %d" % n, nontrivial=False)


def instance_registration(ctx):
    """R08.10: a named instance that is imported or exported inside a type scope (or at the root) is what later items alias
    their used types from.  Every encoder function that can emit an `Instance` import/export records the new instance index
    in `Scope::instances` (sibling agreement import / export / import_deps); and an `Instance` *import* is emitted only
    after `Scope::instances` was consulted (in the function or by every caller), so an interface already imported as a
    dependency is not imported a second time under the same name."""
    db, prov = ctx.db, ctx.prov
    callers = db.callers()
    n = 0
    for f in sorted(db.fns.values(), key=lambda x: x.id):
        if f.crate != "wac_graph" or f.from_expansion or "{closure" in f.id or f.id.startswith("wac_graph::encoding::Encodable::"):
            continue
        emits = []
        for t in f.calls():
            nm = (t.path or "").rsplit("::", 1)[-1]
            if nm not in ("import_type", "export_type", "import", "export") or not t.args:
                continue
            if not ((t.path or "").startswith(("wac_graph::encoding::", "wasm_encoder::"))):
                continue
            sl = prov.slice(f, t.args[-1])
            if any((a or "").endswith("ComponentTypeRef") and v == "Instance" for a, v in sl.aggs):
                emits.append((t, nm))
        if not emits:
            continue
        ctx.touch(f)
        cfg = CFG(f)
        ins = [t for t in f.calls() if (t.path or "").rsplit("::", 1)[-1] == "insert" and narrow(prov, f, t.args[0]).has_field("instances", "encoding::Scope")]
        keep = [t for t in f.calls() if (t.path or "").rsplit("::", 1)[-1] in ("entry", "or_insert", "or_insert_with") and (t.path or "").rsplit("::", 1)[-1] == "entry"
                and narrow(prov, f, t.args[0]).has_field("instances", "encoding::Scope")]
        if keep and not ins:
            n += 1
            ctx.ob("R08.10", "registers|" + f.id.split("::", 1)[1], False,
                   "%s records the new instance with `entry(..).or_insert(..)`: when the interface already has an instance in the scope (imported, or pulled in as a dependency) the older index is kept, "
                   "and later items alias their types from that instance instead of the one just emitted" % f.id.split("::", 1)[1], site="%s in %s" % (keep[0].span, f.id))
            continue
        n += 1
        short = f.id.split("::", 1)[1]

        def closes_scope(t):
            """the emission is the last thing written into its scope: the next encoder call on every path is State::pop"""
            seen, work = set(), [t.target] if t.target is not None else []
            while work:
                b = work.pop()
                if b in seen:
                    continue
                seen.add(b)
                tt = cfg.blocks[b].term
                if tt.k == "call" and (tt.path or "").startswith("wac_graph::encoding::"):
                    if not (tt.path or "").endswith("State::pop"):
                        return False
                    continue
                if tt.k == "return":
                    return False
                work.extend(cfg.succ[b])
            return bool(seen)
        if not ins and all(closes_scope(t) for t, _ in emits):
            ctx.ob("R08.10", "registers|" + short, True, "the instance is the last item of its scope (the scope is popped right after): nothing can alias from it", nontrivial=False)
            continue
        ctx.ob("R08.10", "registers|" + short, bool(ins),
               "the emitted instance is recorded in Scope::instances for the items that alias from it" if ins else
               "%s can emit a named instance (%s) but never records it in Scope::instances: a later item that uses one of its types re-imports the interface as a dependency "
               "(an import the real component does not have) instead of aliasing from this instance" % (short, "/".join(sorted({nm for _, nm in emits}))),
               site="%s in %s" % (emits[0][0].span, f.id))
        imports = [t for t, nm in emits if nm in ("import_type", "import")]
        if imports:
            def consulted(g, before_bb):
                cg = CFG(g)
                return any((l.path or "").rsplit("::", 1)[-1] in ("contains_key", "get", "get_full", "entry") and narrow(prov, g, l.args[0]).has_field("instances", "encoding::Scope")
                           and cg.reaches(l.bb, before_bb) and l.bb != before_bb for l in g.calls())
            ok = all(consulted(f, t.bb) for t in imports)
            if not ok:
                sites = [(g, c) for g in (db.fns.get(x) for x in callers.get(f.id, ())) if g is not None for c in g.calls() if c.path == f.id]
                ok = bool(sites) and all(consulted(g, c.bb) for g, c in sites)
            ctx.ob("R08.10", "import-once|" + short, ok,
                   "an instance is imported only after Scope::instances was consulted" if ok else
                   "%s imports a named instance without looking at Scope::instances (neither it nor its callers do): an interface already imported as a dependency of an earlier "
                   "`use` is imported again under the same name and the output is invalid" % short, site="%s in %s" % (imports[0].span, f.id))
    ctx.ob("R08.10", "count", n >= 3, "functions that emit named instances: %d" % n, nontrivial=False)


def resource_alias_names(ctx):
    """R08.10 `alias-names-source`: when the type encoder aliases a resource out of its owner's instance, the export it names
    is the *source* resource's name in the owner (`types[resolve_resource(alias.source)].name`), not the local name the
    using world gave it (`use i.{r as s}` must alias export "r")."""
    db, prov = ctx.db, ctx.prov
    n = 0
    for f in db.fns.values():
        if not f.id.startswith("wac_graph::encoding::TypeEncoder::") or f.from_expansion:
            continue
        for st in f.stmts():
            if st.rv.k == "agg" and st.rv.j.get("variant") == "InstanceExport" and (st.rv.j.get("adt") or "").endswith("Alias"):
                ops = dict(zip(st.rv.j.get("fields", []), st.rv.ops))
                if "name" not in ops:
                    continue
                sl = prov.slice(f, ops["name"])
                if not sl.has_field("name", "component::Resource"):
                    continue
                n += 1
                ok = sl.has_call("resolve_resource")
                ctx.ob("R08.10", "alias-names-source|%s" % f.id.rsplit("::", 1)[-1], ok,
                       "the aliased export is named after the source resource in its owner" if ok else
                       "the alias out of the owner's instance is named after the *local* resource, not after the source it aliases: a renamed use (`use i.{r as s}`) aliases a non-existent export `s`",
                       site="%s in %s" % (st.span, f.id))
    ctx.ob("R08.10", "alias-names-count", n >= 1, "resource aliases out of an owner instance: %d" % n, nontrivial=False)


def resource_identity(ctx):
    """R08.11: inside a scope the encoder must tell resources apart by identity.  `Scope::resources` maps a key to the type
    index a resource got in the scope being written; if that key is the resource's *name*, two different resources that are
    both called `r` (one used from interface a, one from interface b under another local name) resolve to the same index and
    the written type equates them."""
    db = ctx.db
    a = db.adts.get("wac_graph::encoding::Scope")
    if not a:
        ctx.lost("R08.11", "wac_graph::encoding::Scope")
        return
    ty = next((fl["ty"] for v in a["variants"] for fl in v["fields"] if fl["name"] == "resources"), None)
    if ty is None:
        ctx.lost("R08.11", "Scope::resources")
        return
    by_name = "alloc::string::String" in ty.split(",")[0]
    ctx.ob("R08.11", "resources-keyed-by-identity", not by_name,
           "Scope::resources is keyed by %s" % ty.split(",")[0].split("<")[-1] if not by_name else
           "Scope::resources is keyed by the resource's *name* (%s): distinct resources with the same name in one scope share an entry, so a renamed `use` of b's `r` next to a's `r` "
           "is written as `(eq a.r)`" % ty, site=a.get("span", ""))


def run(ctx):
    db, prov = ctx.db, ctx.prov
    struct_conversions(ctx)
    fns = [f for f in db.fns.values() if f.crate in ("wac_types", "wac_graph") and not f.from_expansion]
    n = tables.check_enum_tables(ctx, "R08.2", fns, only=lambda e1, e2: not e1.endswith("ItemKind") and not e1.endswith("type::Type"))
    ctx.ob("R08.2", "rows", n >= 70, "enum conversion rows checked: %d" % n, nontrivial=False)
    func_type_coverage(ctx)
    alias_fixpoint(ctx)
    cache_keys(ctx)
    # R08.6 every item kind is re-encodable: ItemKind -> ComponentTypeRef tables in TypeEncoder::import/export are total
    for name in ("import", "export"):
        f = db.fn("wac_graph::encoding::TypeEncoder::" + name)
        ctx.touch(f)
        rows = tables.enum_to_enum(db, prov, f)
        got = {v1 for (e1, e2), rs in rows.items() if e1.endswith("ItemKind") and e2.endswith("ComponentTypeRef") for v1, v2, _ in rs}
        want = set(db.variants("wac_types::component::ItemKind"))
        panics = [t for t in f.calls() if t.target is None and (t.path or "").startswith("core::panicking")]
        ok = got == want and not panics
        ctx.ob("R08.6", "total|TypeEncoder::" + name, ok, "every ItemKind a world can import/export is re-encoded (no panicking fallback)" if ok else
               "TypeEncoder::%s does not handle %s (panicking arms: %d)" % (name, sorted(want - got), len(panics)), site=f.span)
    pair_positions(ctx)
    instance_registration(ctx)
    resource_identity(ctx)
    resource_alias_names(ctx)
    c01.alias_reset(c01.ctx_alias(ctx, "R08.7"))
    c01.index_capture(c01.ctx_alias(ctx, "R08.7"))
    import cachewriters
    cachewriters.check(ctx, "R08.9")

