"""small MIR pattern helpers shared by the rule modules."""
from cfg import CFG


def loop_header_of(cfg, bb):
    """the innermost loop header dominating `bb` among blocks on a cycle through bb: a block H with
    H dom bb and bb ->+ H.  Returns the nearest such H (deepest in the dominator tree) or None."""
    if not cfg.reaches(bb, bb):
        return None
    idom = cfg.dominators()
    x = bb
    while True:
        if cfg.reaches(bb, x) and cfg.dominates(x, bb) and x in cfg.reach_from(bb):
            # x is on a cycle with bb and dominates it
            if x != bb or True:
                # prefer a header that is the target of a back edge
                if any(cfg.dominates(x, p) for p in cfg.pred[x]):
                    return x
        if x == 0:
            return None
        x = idom.get(x, 0)


def calls_named(fn, *suffixes):
    return [t for t in fn.calls() if (t.path or "").endswith(suffixes)]


def switch_after(cfg, term):
    """the switch terminator that tests the boolean/discriminant result of call `term` (in its target block)."""
    if term.target is None:
        return None
    t = cfg.blocks[term.target].term
    return t if t.k == "switch" else None


def true_false_targets(sw):
    true_t = [sw.j["otherwise"]] + [tg for v, tg in sw.j["targets"] if v != 0]
    false_t = [tg for v, tg in sw.j["targets"] if v == 0]
    return true_t, false_t
