"""small MIR pattern helpers shared by the rule modules."""
from cfg import CFG


def loop_header_of(cfg, bb):
    """the innermost loop header dominating `bb` among blocks on a cycle through bb: a block H with
    H dom bb and bb ->+ H.  Returns the nearest such H (deepest in the dominator tree) or None."""
    if not cfg.reaches(bb, bb):
        return None
    idom = cfg.dominators()
    x = bb
    while True:
        if cfg.reaches(bb, x) and cfg.dominates(x, bb) and x in cfg.reach_from(bb):
            # x is on a cycle with bb and dominates it
            if x != bb or True:
                # prefer a header that is the target of a back edge
                if any(cfg.dominates(x, p) for p in cfg.pred[x]):
                    return x
        if x == 0:
            return None
        x = idom.get(x, 0)


def calls_named(fn, *suffixes):
    return [t for t in fn.calls() if (t.path or "").endswith(suffixes)]


def switch_after(cfg, term):
    """the switch terminator that tests the boolean/discriminant result of call `term` (in its target block)."""
    if term.target is None:
        return None
    t = cfg.blocks[term.target].term
    return t if t.k == "switch" else None


def true_false_targets(sw):
    true_t = [sw.j["otherwise"]] + [tg for v, tg in sw.j["targets"] if v != 0]
    false_t = [tg for v, tg in sw.j["targets"] if v == 0]
    return true_t, false_t


def loop_exit_kinds(f, cfg=None):
    """for every iterator loop of f: (next-call term, set of result kinds assigned to the return place on the paths that
    leave the loop body without exhausting the iterator) — kinds are aggregate variant names ('Some', 'None', 'Ok', 'Err', …)
    and 'residual' for a `?` propagation."""
    from cfg import CFG
    cfg = cfg or CFG(f)
    out = []
    for nx in f.calls():
        if not (nx.path or "").endswith("::next") or nx.target is None or not cfg.reaches(nx.bb, nx.bb):
            continue
        sw = cfg.blocks[nx.target].term
        if sw.k != "switch":
            continue
        some = [tg for v, tg in sw.j["targets"] if v == 1]
        if not some:
            continue
        region = cfg.reach_from(some[0], cut={nx.bb})
        body = {x for x in region if cfg.reaches(x, nx.bb)}
        exits = [x for x in region - body if any(p in body for p in cfg.pred[x]) and not cfg.diverges(x) and cfg.blocks[x].term.k != "unreachable"]
        kinds = {}
        for x in exits:
            for b in cfg.reach_from(x):
                for s in cfg.blocks[b].stmts:
                    if s.lhs.local == 0 and not s.lhs.proj and s.rv.k == "agg" and s.rv.j.get("variant"):
                        kinds.setdefault(s.rv.j["variant"], s.span)
                t = cfg.blocks[b].term
                if t.k == "call" and (t.path or "").endswith("from_residual") and t.dest is not None and t.dest.local == 0:
                    kinds.setdefault("residual", t.span)
        out.append((nx, kinds))
    return out
