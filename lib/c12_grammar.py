"""R12.1 / R12.2 / R12.8: grammar rules built on lib/grammar.py (token automata of the Parse impls)."""
import json, os, re
from collections import deque
from cfg import CFG
from facts import Operand, strip_generics
import grammar, engine

REF = os.path.join(engine.VERIF, "specs", "grammar_dfa.json")
CONSUMERS = ("wac_parser::ast::parse_token", "wac_parser::ast::parse_delimited", "wac_parser::ast::parse_optional")


def build(ctx):
    db, prov = ctx.db, ctx.prov
    b = grammar.Builder(db, prov)
    dfas = {}
    fns = {}
    for k, f in sorted(db.fns.items()):
        n = grammar.prod_name(k)
        if n is None:
            continue
        dfas[n] = grammar.canonical(db, prov, f, b)
        fns[n] = f
    return dfas, fns


def fmt_word(w):
    return " ".join(x.split(":", 1)[1] if x.startswith(("tok:", "nt:")) else x for x in w) or "<empty>"


def run(ctx):
    db, prov = ctx.db, ctx.prov
    if not os.path.exists(REF):
        ctx.lost("R12.1", "specs/grammar_dfa.json")
        return
    ref = json.load(open(REF))["productions"]
    dfas, fns = build(ctx)
    for n, f in fns.items():
        ctx.touch(f)
    ctx.ob("R12.1", "anchor", len(dfas) >= 55, "productions extracted from `impl Parse` bodies: %d" % len(dfas), nontrivial=False)
    for n in sorted(set(ref) | set(dfas)):
        site = fns[n].span if n in fns else ""
        if n not in dfas:
            ctx.ob("R12.1", "production|" + n, False, "production `%s` of the reviewed grammar no longer has a parser" % n)
            continue
        A = dfas[n]
        bad = [lab for _, lab, _ in A["trans"] if lab == "ANY" or "?" in lab]
        if bad:
            ctx.ob("R12.1", "production|" + n, False, "the parser of `%s` consumes a token without a recognisable guard (%s): its language cannot be established" % (n, sorted(set(bad))), site=site)
            continue
        if n not in ref:
            ctx.ob("R12.1", "production|" + n, False, "new production `%s` is not in the reviewed grammar (specs/grammar_dfa.json)" % n, site=site)
            continue
        w = grammar.distinguishing_word(ref[n], A)
        ctx.ob("R12.1", "production|" + n, w is None,
               "accepts exactly the reviewed token language (%d states)" % A["states"] if w is None else
               "the token language of `%s` changed: `%s` is accepted only by the %s grammar" % (n, fmt_word(w[0]), w[1]), site=site)

    # ---- R12.2 Peek / FIRST agreement and list-item progress
    peeks = {}
    for k, f in db.fns.items():
        m = re.match(r"^wac_parser::<(.+) as ast::Peek>::peek$", k)
        if not m:
            continue
        name = re.sub(r"<'[a-z_]+>", "", m.group(1)).replace("ast::", "").replace("r#", "")
        toks = set()
        delegates = set()
        for t in f.calls():
            if t.path == "wac_parser::ast::Lookahead::peek":
                c = prov.const_of(f, t.args[1])
                if c and c[0] == "variant":
                    toks.add(c[2])
            m2 = re.match(r"^wac_parser::<(.+) as ast::Peek>::peek$", t.path or "")
            if m2:
                delegates.add(re.sub(r"<'[a-z_]+>", "", m2.group(1)).replace("ast::", "").replace("r#", ""))
        peeks[name] = (toks, delegates, f)

    def peek_set(n, seen=()):
        if n in seen or n not in peeks:
            return set()
        toks, dels, _ = peeks[n]
        out = set(toks)
        for d_ in dels:
            out |= peek_set(d_, seen + (n,))
        return out
    n_peek = 0
    for n in sorted(peeks):
        if n not in dfas:
            continue
        n_peek += 1
        ps = peek_set(n)
        fs, nullable = grammar.first_tokens(dfas, n)
        # docs may precede any item: `///` comments are not tokens, so FIRST is computed over tokens only
        ok = ps == fs and not nullable
        ctx.ob("R12.2", "peek-first|" + n, ok,
               "Peek accepts exactly FIRST(%s) (%d tokens)" % (n, len(fs)) if ok else
               "Peek and Parse of `%s` disagree: peek-only %s, parse-only %s%s" % (n, sorted(ps - fs), sorted(fs - ps), ", production is nullable" if nullable else ""),
               site=peeks[n][2].span)
    ctx.floor("R12.2", 25)
    items = set()
    for A in dfas.values():
        for _, lab, _ in A["trans"]:
            if lab.startswith("list|"):
                items.add(lab.split("|")[1])
    for z in sorted(items):
        fs, nullable = grammar.first_tokens(dfas, z)
        ctx.ob("R12.2", "list-item-progress|" + z, (not nullable) and bool(fs), "every `%s` list item consumes at least one token (the list loop makes progress)" % z if not nullable else
               "`%s` can match the empty string inside parse_delimited: the list loop would not terminate" % z)

    lookahead_freshness(ctx, fns)


def lookahead_freshness(ctx, fns):
    """R12.8 typestate: a Lookahead is peeked only while it is fresh — no token is consumed between
    `Lookahead::new(lexer)` and a peek through it."""
    db, prov = ctx.db, ctx.prov
    n = 0
    bodies = [f for f in db.fns.values() if f.crate == "wac_parser" and f.file.startswith("crates/wac-parser/src/ast") and not f.from_expansion]
    for f in bodies:
        uses = []
        for t in f.calls():
            p = t.path or ""
            if p == "wac_parser::ast::Lookahead::peek" or re.match(r"^wac_parser::<.+ as ast::Peek>::peek$", p) or p == "wac_parser::ast::Lookahead::error":
                if p.endswith("::error"):
                    continue
                uses.append(t)
        if not uses:
            continue
        cfg = CFG(f)
        d = prov.defs(f)

        def root(op):
            l = op.place.local if op.place is not None else None
            for _ in range(5):
                ds = [x for x in d.defs.get(l, ()) if x[0] == "stmt"]
                if len(ds) == 1 and ds[0][1].rv.k == "ref":
                    l = ds[0][1].rv.place.local
                elif len(ds) == 1 and ds[0][1].rv.k == "use" and ds[0][1].rv.ops[0].place is not None:
                    l = ds[0][1].rv.ops[0].place.local
                else:
                    break
            return l

        def consumes(t):
            p = t.path or ""
            return p in CONSUMERS or ("lexer::Lexer" in p and p.endswith("::next")) or bool(grammar.PARSE_RE.match(p)) or (t.declared or "").endswith("ast::Parse::parse")
        for u in uses:
            L = root(u.args[0])
            if L is None or not (1 <= L):
                continue
            if L <= f.arg_count:
                continue     # the lookahead is a parameter (Peek impls): freshness is the caller's obligation
            creators = {c.bb for c in f.calls() if c.path == "wac_parser::ast::Lookahead::new" and c.dest.local == L}
            if not creators:
                continue
            n += 1
            # backward search from the use: a consuming call met before the creation makes the lookahead stale
            stale = None
            seen = set()
            dq = deque(cfg.pred[u.bb])
            while dq and stale is None:
                b = dq.popleft()
                if b in seen:
                    continue
                seen.add(b)
                if b in creators:
                    continue
                t = cfg.blocks[b].term
                if t.k == "call" and consumes(t):
                    stale = t
                    break
                dq.extend(cfg.pred[b])
            ctx.ob("R12.8", "fresh|%s@%d" % (grammar.prod_name(f.id) or f.id.split("::", 1)[1], n), stale is None,
                   "the lookahead is peeked before anything is consumed after its creation" if stale is None else
                   "a token is consumed (`%s`) between Lookahead::new and this peek: the test looks at a token that is no longer next" % (stale.path.split("::")[-1] if stale.path else "?"),
                   site="%s in %s" % (u.span, f.id))
    ctx.floor("R12.8", 40)
