"""Decode the literal text of a `fmt::Arguments` value from the constants that flow into it.

`format_args!` lowers to `Arguments::from_str(const "..")` (no arguments) or
`Arguments::new::<N, M>(&b"<template>", args)` where the byte template is: chunks with a length byte < 0x80
followed by that many literal bytes, 0x80 + u16le length for long literals, bytes >= 0xC0 for placeholders
(followed by option bytes depending on flag bits), 0x00 end (see core/src/fmt/mod.rs)."""


def decode_template(b):
    out = []
    i = 0
    n = len(b)
    while i < n:
        c = b[i]
        if c == 0:
            break
        if c < 0x80:
            out.append(b[i + 1:i + 1 + c].decode("utf-8", "replace"))
            i += 1 + c
        elif c == 0x80:
            ln = b[i + 1] | (b[i + 2] << 8)
            out.append(b[i + 3:i + 3 + ln].decode("utf-8", "replace"))
            i += 3 + ln
        else:
            # placeholder opcode: 0b11xxxxxx ; flag bits announce option bytes that follow
            out.append("\u2039\u203a")
            i += 1
            if c & 0x01:   # flags: u32
                i += 4
            if c & 0x02:   # width: u16
                i += 2
            if c & 0x04:   # precision: u16
                i += 2
            if c & 0x08:   # arg index: u16
                i += 2
    return "".join(out)


def arguments_text(prov, f, operand):
    """literal text of the fmt::Arguments reaching `operand` ('' when none is found)."""
    sl = prov.slice(f, operand, follow_closures=False)
    texts = []
    for fn, t in sl.calls:
        p = t.path or ""
        if p.startswith("core::fmt::Arguments::") or p.startswith("core::fmt::rt::"):
            for a in t.args:
                v = a.const_value()
                if v and v[0] == "str":
                    texts.append(v[1])
                elif v and v[0] == "bytes":
                    try:
                        texts.append(decode_template(bytes.fromhex(v[1])))
                    except Exception:
                        texts.append("<undecodable template>")
    for k, v in sl.consts:
        if k == "str" and v not in texts:
            texts.append(v)
        elif k == "bytes":
            try:
                tx = decode_template(bytes.fromhex(v))
            except Exception:
                tx = "<undecodable template>"
            if tx not in texts:
                texts.append(tx)
    return " | ".join(sorted(set(texts)))
