"""C16 — composition is reproducible: no hash-iteration order reaches an order-sensitive sink,
no ambient nondeterminism on the pipeline."""
import json, os
from taint import Taint, is_source, short
from facts import strip_generics
import engine

EXPLANATION = ("order-taint analysis over the MIR of all workspace crates: every iteration over a std HashMap/HashSet is a source; "
               "taint is propagated forward through iterator adaptors, collections, closures invoked per item, and function "
               "returns/parameters; a source is reported only when it reaches an order-sensitive sink (first-element extraction, "
               "ordered accumulation, item-dependent early exit). Plus a who-may-call rule for ambient nondeterminism APIs and "
               "Debug-formatting of hash collections. Decides that hash-iteration order cannot influence outputs by these routes; "
               "does not decide byte-identity of outputs")

AMBIENT = ("std::time::SystemTime::now", "std::time::Instant::now", "std::env::var", "std::env::vars", "std::env::var_os",
           "std::process::id", "std::thread::current", "std::thread::spawn", "std::thread::Builder", "rand::", "getrandom::",
           "std::hash::random::RandomState::new", "std::env::temp_dir", "std::env::current_dir", "std::sys::", "std::time::")
PIPELINE_CRATES = ("wac_types", "wac_graph", "wac_parser")


def in_scope(f):
    # derive(Serialize)/derive(Debug) bodies are generated and never iterate hash collections of ours
    return f.crate in ("wac_types", "wac_graph", "wac_parser", "wac_resolver", "wac_cli", "wac.bin")


def allowlist(which="allow"):
    p = os.path.join(engine.VERIF, "specs", "order_allowlist.json")
    return json.load(open(p)).get(which, []) if os.path.exists(p) else []


def run(ctx):
    db = ctx.db
    allow = {a["key"]: a for a in allowlist()}
    allow_src = {a["key"]: a for a in allowlist("allow_sources")}
    used_allow = set()

    def allow_source(f, t):
        k = "%s|%s" % (f.id, short(t.path))
        if k in allow_src:
            # the reviewed invariant is about what the function hands out: void when its return type changed
            want = allow_src[k].get("returns")
            if want is not None and f.local_ty(0) != want:
                return False
            used_allow.add(k)
            return True
        return False
    tn = Taint(db, in_scope, allow_sources=allow_source)
    findings = tn.run()
    srcs = {}
    for f, t in tn.sources:
        srcs.setdefault("%s|%s" % (f.id, short(t.path)), (f, t))
        ctx.touch(f)
    for k in sorted(allow_src):
        ctx.ob("R16.1", "allowed-source|" + k, k in used_allow,
               ("benign by reviewed invariant: " + allow_src[k]["reason"]) if k in used_allow else "allow-listed source no longer exists (stale allow-list: re-review)")
    fkeys = {}
    for fd in findings:
        fkeys.setdefault(fd.key(), fd)
    # one obligation per source: it reaches no sink
    for k, (f, t) in sorted(srcs.items()):
        mine = [fd for fd in fkeys.values() if fd.source is t]
        live = [fd for fd in mine if fd.key() not in allow]
        if not live:
            why = "hash iteration reaches no order-sensitive sink"
            if mine:
                why = "reaches only allow-listed sinks: " + "; ".join("%s (%s)" % (fd.key(), allow[fd.key()]["reason"]) for fd in mine)
            ctx.ob("R16.1", "source|" + k, True, why, site="%s in %s" % (t.span, f.id))
    for k, fd in sorted(fkeys.items()):
        if k in allow:
            continue
        sink_span = getattr(fd.sink, "span", "")
        ctx.ob("R16.1", k, False, "%s: source %s at %s reaches %s sink at %s" % (fd.why, short(fd.source.path), fd.source.span, fd.sink_kind, sink_span),
               site="%s in %s" % (sink_span, fd.fn.id))
    ctx.ob("R16.1", "count", len(srcs) + len(used_allow) >= 5, "hash-iteration sources analysed: %d (+%d allow-listed), floor 5" % (len(srcs), len(used_allow)), nontrivial=False)
    # stale allow-list entries are reported (not a violation, but visible)
    for k in allow:
        if k not in fkeys:
            ctx.notes.append("allow-list entry no longer matches anything: " + k)

    # ---- R16.2 ambient nondeterminism on the library pipeline
    n = 0
    for f in db.fns.values():
        if f.crate not in PIPELINE_CRATES:
            continue
        n += 1
        for t in f.calls():
            p = t.path or ""
            if p.startswith(AMBIENT) and not any(m.startswith(("log::", "$crate::log")) for m in t.mac):
                ctx.ob("R16.2", "%s|%s" % (f.id, p), False, "ambient nondeterminism API `%s` called on the parse/resolve/encode pipeline" % p,
                       site="%s in %s" % (t.span, f.id))
    ctx.ob("R16.2", "pipeline-bodies", n > 1000, "bodies of %s scanned for clock/RNG/environment/thread APIs: %d, none found unless listed" % (PIPELINE_CRATES, n))
    # positive control for a zero-expectation rule: the matcher must recognise these APIs where they do occur (CLI / resolver)
    ctl = 0
    for f in db.fns.values():
        for t in f.calls():
            if (t.path or "").startswith(("std::env::", "tokio::spawn", "tokio::task::spawn", "std::io::stdout")):
                ctl += 1
    ctx.ob("R16.2", "positive-control", ctl >= 1, "matcher sees %d ambient/IO API calls outside the pipeline crates (CLI, registry resolver)" % ctl, nontrivial=False)

    # ---- R16.3 Debug/Display of a hash collection in a non-log formatting
    m = 0
    for f in db.fns.values():
        if f.crate not in ("wac_types", "wac_graph", "wac_parser", "wac_resolver", "wac_cli"):
            continue
        for t in f.calls():
            p = t.path or ""
            if "fmt::rt::Argument" in p and ("new_debug" in p or "new_display" in p):
                m += 1
                if any("HashMap<" in a or "HashSet<" in a for a in t.gen_args) and not any(x.startswith(("log::", "$crate::log")) for x in t.mac):
                    ctx.ob("R16.3", "%s|%s" % (f.id, "hash-debug"), False, "a hash collection is formatted (hash order) outside a log macro",
                           site="%s in %s" % (t.span, f.id))
    ctx.ob("R16.3", "format-args", m > 100, "format arguments inspected: %d; none formats a HashMap/HashSet outside log macros unless listed" % m)
