"""Fact database: loads the JSON emitted by driver/ (wacfacts) and offers typed accessors.

Everything here is a pure function of the fact files; nothing executes wac.
"""
import json, os, re, glob
from collections import defaultdict

WORKSPACE_CRATES = ["wac_types", "wac_graph", "wac_parser", "wac_resolver", "wac_cli", "wac.bin", "programmatic_example.bin"]
LIB_CRATES = ["wac_types", "wac_graph", "wac_parser", "wac_resolver", "wac_cli", "wac.bin"]

_GEN = re.compile(r"::<[^<>]*>")


def strip_generics(path):
    """`petgraph::prelude::StableGraph::<N, E, Ty, Ix>::remove_node` -> `petgraph::prelude::StableGraph::remove_node`.
    Trait-impl paths `<T as Trait>::m` keep their leading `<..>` (balanced scan)."""
    if path is None:
        return None
    # remove ::<...> groups (possibly nested) by balanced scan
    out = []
    i = 0
    n = len(path)
    while i < n:
        if path.startswith("::<", i):
            depth = 0
            j = i + 2
            while j < n:
                c = path[j]
                if c == '<':
                    depth += 1
                elif c == '>':
                    if j > 0 and path[j - 1] == '-':
                        pass
                    else:
                        depth -= 1
                        if depth == 0:
                            break
                j += 1
            if " as " in path[i + 3:j]:
                # `crate::<T as Trait>::method` (local trait impl item): not a generic-argument group
                out.append(path[i:i + 3])
                i += 3
                continue
            i = j + 1
            continue
        out.append(path[i])
        i += 1
    return "".join(out)


class Place:
    __slots__ = ("local", "proj")

    def __init__(self, j):
        self.local = j["l"]
        self.proj = [tuple(p) for p in j["p"]]
        # coroutine state: `((*_s) as <n>).<k>` is the saved user variable k — model it as a pseudo-local
        pr = self.proj
        i = 0
        while i < len(pr) and pr[i][0] == "deref":
            i += 1
        if i + 1 < len(pr) and pr[i][0] == "downcast" and str(pr[i][1]).isdigit() and pr[i + 1][0] == "field" and str(pr[i + 1][1]).isdigit() \
                and str(pr[i + 1][2]).startswith("closure:"):
            self.local = 1000000 + int(pr[i + 1][1])
            self.proj = pr[i + 2:]

    def fields(self):
        """[(name, owner, variant)] for each field projection."""
        return [(p[1], p[2], p[3]) for p in self.proj if p[0] == "field"]

    def has_deref(self):
        return any(p[0] == "deref" for p in self.proj)

    def __repr__(self):
        s = "_%d" % self.local
        for p in self.proj:
            if p[0] == "deref":
                s = "(*%s)" % s
            elif p[0] == "field":
                s += "." + p[1]
            elif p[0] == "downcast":
                s = "(%s as %s)" % (s, p[1])
            elif p[0] == "index":
                s += "[_%d]" % p[1]
            else:
                s += "." + p[0]
        return s


class Operand:
    __slots__ = ("kind", "place", "const", "raw")

    def __init__(self, j):
        self.raw = j
        self.place = None
        self.const = None
        if "copy" in j:
            self.kind = "copy"
            self.place = Place(j["copy"])
        elif "move" in j:
            self.kind = "move"
            self.place = Place(j["move"])
        elif "const" in j:
            self.kind = "const"
            self.const = j["const"]
        else:
            self.kind = "other"

    def const_value(self):
        c = self.const
        if c is None:
            return None
        for k in ("bool", "char", "int", "bits", "str", "bytes"):
            if k in c:
                return (k, c[k])
        if "fn" in c:
            return ("fn", c["fn"].get("resolved") or c["fn"]["path"])
        if "uneval" in c and "promoted" not in c:
            return ("named", c["uneval"])
        return None

    def __repr__(self):
        if self.place is not None:
            return "%s %r" % (self.kind, self.place)
        if self.const is not None:
            v = self.const_value()
            return "const %s" % (v,) if v else "const<%s>" % self.const.get("ty")
        return "other"


class Rvalue:
    __slots__ = ("k", "j", "ops", "place")

    def __init__(self, j):
        self.j = j
        self.k = j["k"]
        self.ops = []
        self.place = None
        if self.k in ("use", "cast", "repeat"):
            self.ops = [Operand(j["op"])]
        elif self.k in ("ref", "rawptr", "discr"):
            self.place = Place(j["place"])
        elif self.k == "bin":
            self.ops = [Operand(j["a"]), Operand(j["b"])]
        elif self.k == "un":
            self.ops = [Operand(j["a"])]
        elif self.k == "agg":
            self.ops = [Operand(o) for o in j["ops"]]
            if "closure" in j:
                j["closure"] = strip_generics(j["closure"])

    @property
    def op(self):
        return self.j.get("op") if self.k in ("bin", "un") else None

    def __repr__(self):
        if self.k == "agg":
            tag = self.j.get("adt", "") + ("::" + self.j["variant"] if "variant" in self.j else "")
            if "closure" in self.j:
                tag = "closure " + self.j["closure"]
            if self.j.get("tuple"):
                tag = "tuple"
            return "agg %s %r" % (tag, self.ops)
        if self.place is not None:
            return "%s %r" % (self.k, self.place)
        return "%s%s %r" % (self.k, (" " + str(self.op)) if self.op else "", self.ops)


class Stmt:
    __slots__ = ("lhs", "rv", "span", "mac", "bb", "idx")

    def __init__(self, j, bb, idx):
        self.bb = bb
        self.idx = idx
        self.span = j.get("span", "")
        self.mac = j.get("mac", [])
        if "lhs" in j:
            self.lhs = Place(j["lhs"])
            self.rv = Rvalue(j["rv"])
        else:
            self.lhs = Place(j["setdiscr"])
            self.rv = Rvalue({"k": "setdiscr", "variant": j["variant"]})

    def __repr__(self):
        return "%r = %r" % (self.lhs, self.rv)


class Args(list):
    """argument list of a call: an index past the end yields an empty operand instead of raising, so a rule that looks at
    `args[0]` of every call named `insert` does not fall over an associated function of the same name that takes none"""

    def __getitem__(self, i):
        if isinstance(i, slice):
            return list.__getitem__(self, i)
        try:
            return list.__getitem__(self, i)
        except IndexError:
            return Operand({"absent": True})


class Term:
    __slots__ = ("k", "j", "bb", "args", "dest", "callee", "span", "mac")

    def __init__(self, j, bb):
        self.bb = bb
        self.j = j
        self.k = j["k"] if j else "none"
        self.span = j.get("span", "") if j else ""
        self.mac = j.get("mac", []) if j else []
        self.args = []
        self.dest = None
        self.callee = None
        if self.k == "call":
            self.args = Args(Operand(a) for a in j["args"])
            self.dest = Place(j["dest"])
            self.callee = j["callee"]
        elif self.k == "yield":
            self.dest = Place(j["dest"])

    # --- call helpers
    @property
    def path(self):
        """resolved callee path when available, else the declared path (generics stripped)."""
        if self.callee is None:
            return None
        return strip_generics(self.callee.get("resolved") or self.callee["path"])

    @property
    def declared(self):
        return strip_generics(self.callee["path"]) if self.callee else None

    @property
    def trait(self):
        return self.callee.get("trait") if self.callee else None

    @property
    def gen_args(self):
        return self.callee.get("args", []) if self.callee else []

    @property
    def fnargs(self):
        return self.callee.get("fnargs", []) if self.callee else []

    @property
    def target(self):
        return self.j.get("target")

    def succs(self, unwind=False):
        k = self.k
        j = self.j
        out = []
        if k in ("goto", "drop", "assert", "yield"):
            out.append(j["target"])
        elif k == "call":
            if j.get("target") is not None:
                out.append(j["target"])
        elif k == "switch":
            out.extend(t for _, t in j["targets"])
            out.append(j["otherwise"])
        if unwind and j and "unwind" in j:
            out.append(j["unwind"])
        return out

    def __repr__(self):
        if self.k == "call":
            return "call %s(%r) -> %r" % (self.path, self.args, self.dest)
        return self.k


class Block:
    __slots__ = ("idx", "cleanup", "stmts", "term")

    def __init__(self, j, idx):
        self.idx = idx
        self.cleanup = j["cleanup"]
        self.stmts = [Stmt(s, idx, i) for i, s in enumerate(j["stmts"])]
        self.term = Term(j["term"], idx)


class Fn:
    def __init__(self, j, crate):
        self.j = j
        self.crate = crate
        self.raw_id = j["id"]
        self.id = strip_generics(j["id"])
        self.kind = j["kind"]
        self.name = j.get("name", "")
        self.span = j.get("span", "")
        self.is_pub = j.get("is_pub", False)
        self.impl_adt = j.get("impl_adt")
        self.impl_self = j.get("impl_self")
        self.impl_trait = j.get("impl_trait")
        self.parent = strip_generics(j.get("parent"))
        self.arg_count = j["arg_count"]
        self.locals = j["locals"]
        self.names = j.get("names", {})
        self.from_expansion = j.get("from_expansion", False)
        self._blocks = None

    @property
    def blocks(self):
        if self._blocks is None:
            self._blocks = [Block(b, i) for i, b in enumerate(self.j["blocks"])]
        return self._blocks

    @property
    def file(self):
        return self.span.split(":")[0]

    def calls(self, cleanup=False):
        for b in self.blocks:
            if b.cleanup and not cleanup:
                continue
            if b.term.k == "call":
                yield b.term

    def stmts(self, cleanup=False):
        for b in self.blocks:
            if b.cleanup and not cleanup:
                continue
            for s in b.stmts:
                yield s

    @property
    def inl_rets(self):
        """return places of helper bodies that were inlined into this function"""
        return set(self.j.get("inl_rets", ()))

    def local_name(self, l):
        return self.names.get(str(l))

    def local_ty(self, l):
        return self.locals[l] if 0 <= l < len(self.locals) else ""

    def __repr__(self):
        return "<Fn %s>" % self.id


def _shift(o, loff, boff):
    """deep copy of a MIR JSON fragment with locals shifted by loff and block indices by boff"""
    if isinstance(o, dict):
        if set(o.keys()) == {"l", "p"}:
            return {"l": o["l"] + loff, "p": [[pr[0], pr[1] + loff] + list(pr[2:]) if pr and pr[0] == "index" and isinstance(pr[1], int) else list(pr) for pr in o["p"]]}
        out = {}
        for k, v in o.items():
            if k in ("target", "unwind", "otherwise") and isinstance(v, int):
                out[k] = v + boff
            elif k == "targets" and isinstance(v, list):
                out[k] = [[x[0], x[1] + boff] for x in v]
            else:
                out[k] = _shift(v, loff, boff)
        return out
    if isinstance(o, list):
        return [_shift(x, loff, boff) for x in o]
    return o


def _inline_call(F, bi, G):
    """replace the call terminating block `bi` of function JSON F by the body of function JSON G (in place)"""
    loff, boff = len(F["locals"]), len(F["blocks"])
    call = F["blocks"][bi]["term"]
    F["locals"] = F["locals"] + G["locals"]
    names = dict(F.get("names", {}))
    for k, v in G.get("names", {}).items():
        if k.isdigit():
            names[str(int(k) + loff)] = v
    F["names"] = names
    sp = call.get("span", "")
    for i, a in enumerate(call["args"]):
        F["blocks"][bi]["stmts"].append({"lhs": {"l": loff + 1 + i, "p": []}, "rv": {"k": "use", "op": a}, "span": sp, "inl": "arg"})
    F["blocks"][bi]["term"] = {"k": "goto", "target": boff, "span": sp, "inlined": G["id"]}
    F.setdefault("inl_rets", []).append(loff)
    cleanup_of_call = F["blocks"][bi]["cleanup"]
    for b in G["blocks"]:
        nb = _shift(b, loff, boff)
        if cleanup_of_call:
            nb["cleanup"] = True
        t = nb["term"]
        if t and t.get("k") == "return":
            nb["stmts"].append({"lhs": call["dest"], "rv": {"k": "use", "op": {"move": {"l": loff, "p": []}}}, "span": sp, "inl": "ret"})
            if call.get("target") is not None:
                nb["term"] = {"k": "goto", "target": call["target"], "span": t.get("span", sp)}
            else:
                nb["term"] = {"k": "unreachable", "span": t.get("span", sp)}
        elif t and t.get("k") == "resume" and call.get("unwind") is not None:
            nb["term"] = {"k": "goto", "target": call["unwind"], "span": t.get("span", sp)}
        F["blocks"].append(nb)


class DB:
    def __init__(self, facts_dir, crates=None):
        self.dir = facts_dir
        self.fns = {}
        self.adts = {}
        self.impls = []
        self.stats = {}
        self.meta = {}
        crates = crates or LIB_CRATES
        for c in crates:
            p = os.path.join(facts_dir, c + ".json")
            if not os.path.exists(p):
                raise FileNotFoundError("fact file missing: " + p)
            with open(p) as f:
                d = json.load(f)
            cname = c
            self.stats[cname] = d["stats"]
            self.meta[cname] = {"argv": d["argv"], "env": d["env"], "cwd": d["cwd"]}
            for k, v in d["adts"].items():
                if k not in self.adts or v.get("local"):
                    self.adts[k] = v
            for i in d["impls"]:
                i["crate"] = cname
                self.impls.append(i)
            for k, v in d["fns"].items():
                fn = Fn(v, cname)
                self.fns[fn.id] = fn
        self._callers = None
        self._closures = None
        self.inlined = {}          # caller id -> [helper ids inlined into it]
        self.helpers = set()       # ids of functions unknown to the reviewed baseline that were inlined
        self.renamed = {}          # new id -> reviewed id
        if os.environ.get("WACVERIF_NO_INLINE") != "1":
            self._detect_renames()
            self._inline_new_helpers()

    # ---- renamed functions
    @staticmethod
    def fingerprint(fn):
        """what identifies a function body independently of its name: arity and the set of callees (last two path segments)"""
        cs = set()
        for b in fn.j["blocks"]:
            t = b["term"]
            if t and t.get("k") == "call" and t.get("callee"):
                pth = strip_generics(t["callee"].get("resolved") or t["callee"]["path"])
                cs.add("::".join(pth.split("::")[-2:]))
        return {"args": fn.arg_count, "callees": sorted(cs)}

    def _baseline(self):
        base_p = os.path.join(os.path.dirname(os.path.abspath(__file__)), "..", "specs", "known_fns.json")
        if not os.path.exists(base_p):
            return None
        b = json.load(open(base_p))["fns"]
        return b if isinstance(b, dict) else {k: None for k in b}

    def _detect_renames(self):
        """A reviewed function that is gone while an unknown function with the same arity and (nearly) the same callees
        exists in the same crate is a *rename*: the new function is given the reviewed id everywhere (its closures, every call
        path, closure aggregates), so anchors, tables and who-may-call rules keep working across a rename refactoring."""
        base = self._baseline()
        if not base:
            return
        cur = {f.id: f for f in self.fns.values() if f.kind in ("Fn", "AssocFn") and "{closure" not in f.id and not f.from_expansion and f.crate in LIB_CRATES}
        gone = [k for k in base if k not in self.fns and base[k] is not None]
        fresh = [k for k in cur if k not in base]
        if not gone or not fresh:
            return
        pairs = []
        for n in fresh:
            fp = self.fingerprint(cur[n])
            best = []
            for g in gone:
                if g.split("::")[0] != n.split("::")[0] or base[g]["args"] != fp["args"]:
                    continue
                a, b = set(base[g]["callees"]), set(fp["callees"])
                if not a and not b:
                    sim = 1.0 if g.rsplit("::", 1)[0] == n.rsplit("::", 1)[0] else 0.0
                else:
                    sim = len(a & b) / float(len(a | b))
                if g.rsplit("::", 1)[0] == n.rsplit("::", 1)[0]:
                    sim += 0.15      # same impl / module
                best.append((sim, g))
            best.sort(reverse=True)
            if best and best[0][0] >= 0.75 and (len(best) == 1 or best[0][0] - best[1][0] >= 0.1):
                pairs.append((best[0][0], n, best[0][1]))
        used = set()
        for sim, n, g in sorted(pairs, reverse=True):
            if g in used:
                continue
            used.add(g)
            self.renamed[n] = g
        if not self.renamed:
            return
        pats = [(re.compile("(?:::<[^<>]*>)?::".join(re.escape(seg) for seg in n.split("::")) + r"(?![A-Za-z0-9_])"), g) for n, g in self.renamed.items()]
        for f in list(self.fns.values()):
            txt = json.dumps(f.j)
            hit = False
            for pat, g in pats:
                if pat.search(txt):
                    txt = pat.sub(lambda m, g=g: g, txt)
                    hit = True
            if hit:
                j = json.loads(txt)
                oldid = f.id
                f.j = j
                f.raw_id = j["id"]
                f.id = strip_generics(j["id"])
                f.parent = strip_generics(j.get("parent"))
                f._blocks = None
                if f.id != oldid:
                    del self.fns[oldid]
                    self.fns[f.id] = f

    # ---- helper inlining
    def _inline_new_helpers(self):
        """Functions that are not in the reviewed baseline (specs/known_fns.json) are *new helpers* — what an
        extract-function refactoring (or a change under test) introduces.  Every direct call to one is replaced by
        the helper's body (locals and blocks renumbered, arguments assigned, returns turned into an assignment of the
        call's destination and a jump to its continuation), so the rules see the caller as it was reviewed.  Private
        helpers whose every use was a direct call are then dropped from the database; their closures are attributed
        to the callers."""
        base_p = os.path.join(os.path.dirname(os.path.abspath(__file__)), "..", "specs", "known_fns.json")
        if not os.path.exists(base_p):
            return
        base = set(json.load(open(base_p))["fns"])   # list or dict of ids
        new = {f.id for f in self.fns.values() if f.kind in ("Fn", "AssocFn") and not f.from_expansion and f.id not in base
               and not re.search(r" as [^>]*>::[A-Za-z0-9_]+$", f.id) and "{closure" not in f.id and f.crate in LIB_CRATES and not any(l.startswith("{coroutine") or "{async" in l for l in f.locals[:1])}
        if not new:
            return
        # a helper handed around as a value (fn item operand) cannot be inlined away
        used_as_value = set()
        for f in self.fns.values():
            for b in f.j["blocks"]:
                t = b["term"]
                if t and t.get("k") == "call":
                    for fa in (t["callee"] or {}).get("fnargs", []) or []:
                        used_as_value.add(strip_generics(fa))
        for _round in range(4):
            changed = False
            for f in list(self.fns.values()):
                if "{coroutine" in (f.locals[0] if f.locals else ""):
                    continue
                todo = []
                for bi, b in enumerate(f.j["blocks"]):
                    t = b["term"]
                    if t and t.get("k") == "call" and t.get("callee"):
                        cp = strip_generics(t["callee"].get("resolved") or t["callee"]["path"])
                        if cp in new and cp != f.id and cp in self.fns and self.inlined.get(f.id, []).count(cp) + sum(1 for _, c in todo if c == cp) < 8:
                            todo.append((bi, cp))
                if not todo:
                    continue
                j = json.loads(json.dumps(f.j))
                for bi, cp in todo:
                    _inline_call(j, bi, self.fns[cp].j)
                    self.inlined.setdefault(f.id, []).append(cp)
                f.j = j
                f.locals = j["locals"]
                f.names = j.get("names", {})
                f._blocks = None
                changed = True
            if not changed:
                break
        self.helpers = {h for hs in self.inlined.values() for h in hs}
        for h in sorted(self.helpers):
            g = self.fns.get(h)
            if g is not None and not g.is_pub and h not in used_as_value:
                # still called directly somewhere (inlining bound reached)?  then keep it
                still = any(t.get("k") == "call" and t.get("callee") and strip_generics(t["callee"].get("resolved") or t["callee"]["path"]) == h
                            for f in self.fns.values() if f.id != h for b in f.j["blocks"] for t in [b["term"]] if t)
                if not still:
                    del self.fns[h]

    # ---- lookups
    def fn(self, id_):
        f = self.fns.get(id_)
        if f is None:
            raise KeyError("anchor lost: function %s not found" % id_)
        return f

    def find_fns(self, pred):
        return [f for f in self.fns.values() if pred(f)]

    def fns_matching(self, regex):
        r = re.compile(regex)
        return [f for k, f in sorted(self.fns.items()) if r.search(k)]

    def adt(self, path):
        a = self.adts.get(path)
        if a is None:
            raise KeyError("anchor lost: ADT %s not found" % path)
        return a

    def variants(self, path):
        return [v["name"] for v in self.adt(path)["variants"]]

    def variant_by_discr(self, path, d):
        a = self.adts.get(path)
        if not a:
            return None
        for v in a["variants"]:
            if v["discr"] == d:
                return v["name"]
        return None

    def fields(self, path, variant=None):
        a = self.adt(path)
        for v in a["variants"]:
            if variant is None or v["name"] == variant:
                return [f["name"] for f in v["fields"]]
        raise KeyError("anchor lost: variant %s of %s" % (variant, path))

    def trait_impls(self, trait):
        return [i for i in self.impls if i.get("trait") == trait]

    def impl_methods(self, trait, self_ty, method):
        """fn ids of `method` in local impls of `trait` whose self type prints like `self_ty` (crate-relative or crate-qualified)."""
        out = []
        st = self_ty.lstrip("&")
        for i in self.impls:
            if i.get("trait") != trait:
                continue
            s1 = i["self"].lstrip("&")
            cr = i["crate"].replace(".bin", "")
            if st == s1 or st == cr + "::" + s1 or st.split("<")[0] == (cr + "::" + s1).split("<")[0] or st.split("<")[0] == s1.split("<")[0]:
                m = i["methods"].get(method)
                if m:
                    out.append(strip_generics(m))
        return out

    def closures_of(self, fn_id):
        if self._closures is None:
            self._closures = defaultdict(list)
            for f in self.fns.values():
                if f.kind == "Closure" or "{closure" in f.id:
                    # direct lexical parent = id without the last ::{closure#n}
                    par = f.id.rsplit("::{closure", 1)[0]
                    self._closures[par].append(f)
            # closures of a helper that was inlined belong to the callers as well
            for caller, hs in self.inlined.items():
                for h in dict.fromkeys(hs):
                    for c in self._closures.get(h, []):
                        if c not in self._closures[caller]:
                            self._closures[caller].append(c)
        return self._closures.get(fn_id, [])

    def with_closures(self, fn):
        """fn plus all (transitively) nested closure bodies."""
        out = [fn]
        for c in self.closures_of(fn.id):
            out.extend(self.with_closures(c))
        return out

    # ---- call graph
    def callees(self, fn, include_closures=True, include_fn_operands=True):
        out = set()
        for t in fn.calls():
            p = t.callee.get("resolved") or t.callee["path"]
            out.add(strip_generics(p))
            for fa in t.fnargs:
                out.add(strip_generics(fa))
            # conversions that dispatch through a blanket impl in core: add the edge to the local impl
            d = t.declared or ""
            conv = None
            if d.endswith("TryInto::try_into"):
                conv = ("core::convert::TryFrom", "try_from", 1)
            elif d.endswith("Into::into"):
                conv = ("core::convert::From", "from", 1)
            elif d.endswith("str::parse"):
                conv = ("core::str::traits::FromStr", "from_str", 0)
            elif d.endswith("ToString::to_string"):
                conv = ("core::fmt::Display", "fmt", 0)
            if conv and len(t.gen_args) > conv[2]:
                target_ty = t.gen_args[conv[2]]
                for m in self.impl_methods(conv[0], target_ty, conv[1]):
                    out.add(m)
            if include_fn_operands:
                for a in t.args:
                    v = a.const_value()
                    if v and v[0] == "fn":
                        out.add(strip_generics(v[1]))
        if include_fn_operands:
            for s in fn.stmts():
                for o in s.rv.ops:
                    v = o.const_value()
                    if v and v[0] == "fn":
                        out.add(strip_generics(v[1]))
                if s.rv.k == "agg" and "closure" in s.rv.j:
                    out.add(strip_generics(s.rv.j["closure"]))
        if include_closures:
            for c in self.closures_of(fn.id):
                out.add(c.id)
        return out

    def reachable(self, roots, stop=None):
        """ids of local functions reachable from roots over the call graph (local bodies only)."""
        seen = set()
        work = list(roots)
        parent = {}
        while work:
            x = work.pop()
            if x in seen:
                continue
            seen.add(x)
            f = self.fns.get(x)
            if f is None:
                continue
            if stop and stop(f):
                continue
            for c in self.callees(f):
                if c in self.fns and c not in seen:
                    parent.setdefault(c, x)
                    work.append(c)
        self._last_parent = parent
        return seen

    def call_path(self, root_seen_parent, target):
        p = []
        x = target
        while x is not None:
            p.append(x)
            x = root_seen_parent.get(x)
        return list(reversed(p))

    def callers(self):
        if self._callers is None:
            m = defaultdict(set)
            for f in self.fns.values():
                for c in self.callees(f):
                    m[c].add(f.id)
            self._callers = m
        return self._callers
