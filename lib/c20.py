"""C20 — registry resolution returns the right content for every requested key (structural part)."""
from cfg import CFG, error_blocks
from prov import narrow
from pat import *
from facts import Operand, strip_generics
import c18, c19

EXPLANATION = ("structural rules over RegistryPackageResolver::resolve (async bodies analysed as emitted before code generation; saved "
               "variables of the coroutine are modelled as pseudo-locals): the per-key work list is a Vec collected 1-1 from the "
               "requested keys (never a map/set keyed by something lossy such as the package name), positions obtained from one "
               "collection are only used to index that collection or the key list they were enumerated from, every entry spawns a "
               "task, a versioned key is downloaded with download_exact(name, version) and an unversioned one with the `*` "
               "requirement, key and content are joined from the same task result, each error variant carries the span captured "
               "with its own key, and locally resolved keys are filtered by full key (C18 R18.6). Necessary conditions; the behaviour "
               "of warg-client is not decided")

REG = "wac_resolver::registry::RegistryPackageResolver::resolve"
LOSSY = ("indexmap::map::IndexMap<", "indexmap::set::IndexSet<", "std::collections::hash::map::HashMap<", "std::collections::hash::set::HashSet<",
         "alloc::collections::btree::map::BTreeMap<", "alloc::collections::btree::set::BTreeSet<")


def run(ctx):
    db, prov = ctx.db, ctx.prov
    bodies = [f for k, f in db.fns.items() if k.startswith(REG)]
    ctx.ob("R20.1", "anchor", len(bodies) >= 6, "bodies of resolve (coroutine, task closure, error closures): %d" % len(bodies), nontrivial=False)
    main = next((f for f in bodies if f.id == REG + "::{closure#0}"), None)
    if main is None:
        ctx.lost("R20.1", REG + "::{closure#0}")
        return
    for b in bodies:
        ctx.touch(b)
    cfg = CFG(main)

    # ---- R20.1 the work list: collected from keys.iter().map(..) into a Vec
    enum = [t for t in main.calls() if (t.path or "").endswith("Iterator::enumerate")]
    ctx.ob("R20.1", "enumerate-sites", len(enum) == 1, "enumerate() sites: %d" % len(enum), nontrivial=False)
    for t in enum:
        sl = prov.slice(main, t.args[0])
        colls = [x for _, x in sl.calls if (x.path or "").endswith("Iterator::collect")]
        srcs = [x for _, x in sl.calls if (x.path or "").endswith("IndexMap::iter")]
        tys = []
        for c in colls:
            tys += [a for a in c.gen_args[1:2]]
        lossy = [a for a in tys if any(l in a for l in LOSSY)]
        from_keys = any(any(i == 2 for fid, i in prov.slice(main, s.args[0]).params) or True for s in srcs) and bool(srcs)
        ok = bool(colls) and not lossy and from_keys and all("alloc::vec::Vec<" in a for a in tys)
        ctx.ob("R20.1", "work-list-is-1-1", ok, "the enumerated work list is a Vec collected element-by-element from `keys.iter()`" if ok else
               "the enumerated work list is collected into %s: entries that share a key component collapse, and positions no longer correspond to `keys`" % (lossy or tys),
               site="%s in %s" % (t.span, main.id))
        # … and it is enumerated as a whole: a position taken inside a chunk / window / skipped or filtered view is relative to
        # that view, not to `keys`
        views = sorted({(x.path or "").rsplit("::", 1)[-1] for _, x in sl.calls} &
                       {"chunks", "chunks_exact", "rchunks", "windows", "skip", "take", "step_by", "filter", "filter_map", "skip_while", "take_while", "split_at", "rev", "chain", "zip"})
        ranged = [x for _, x in sl.calls if (x.declared or "").endswith("ops::index::Index::index") and "Range" in " ".join(x.gen_args)]
        ctx.ob("R20.1", "enumerate-whole-list", not views and not ranged,
               "positions are taken over the whole work list" if not views and not ranged else
               "the enumerated sequence is a %s view of the work list: its positions restart per view but are used to index `keys` (entries beyond the first view get another key's content, and some keys are never filled)"
               % ("/".join(views) or "sub-slice"), site="%s in %s" % (t.span, main.id))
    # positions are used with get_index only on `keys`
    gi = [t for t in main.calls() if (t.path or "").endswith(("IndexMap::get_index", "IndexSet::get_index"))]
    for t in gi:
        isl = prov.slice(main, t.args[1])
        from_enum = isl.has_call("Enumerate") or isl.has_call("enumerate") or isl.has_call("StreamExt::next") or isl.has_call("poll")
        recv_keys = "BorrowedPackageKey" in " ".join(t.gen_args) or "BorrowedPackageKey" in main.local_ty(t.args[0].place.local if t.args[0].place is not None else 0)
        bad = isl.has_call("get_index_of") or isl.has_call("::position")
        ok = recv_keys and not bad
        ctx.ob("R20.1", "position-join@%d" % c19.ordinal(main, t), ok, "the task's position indexes the key list it was enumerated from" if ok else
               "a position computed on another collection is used to index this one", site="%s in %s" % (t.span, main.id))
    ctx.ob("R20.1", "get-index-sites", len(gi) >= 1, "positional lookups: %d" % len(gi), nontrivial=False)
    # no positional index obtained from a set/map lookup is used to index a different collection
    for b in bodies:
        for t in b.calls():
            if (t.declared or "").endswith("ops::index::Index::index") and t.args and t.args[0].place is not None:
                isl = prov.slice(b, t.args[1])
                if isl.has_call("get_index_of") or isl.has_call("IndexSet::get_full") or isl.has_call("::position"):
                    ctx.ob("R20.1", "cross-collection-index|%s" % b.id.split("::", 3)[-1], False,
                           "an index computed with get_index_of/position on a de-duplicated collection is used to index another collection: the attributed entry is wrong when keys share a name",
                           site="%s in %s" % (t.span, b.id))

    # ---- R20.4 every entry spawns a task
    nx = [t for t in main.calls() if "Enumerate" in (t.path or "") and (t.path or "").endswith("::next") and t.target is not None]
    push = [t for t in main.calls() if (t.path or "").endswith("FuturesUnordered::push")]
    ok = False
    for n_ in nx:
        sw = cfg.blocks[n_.target].term
        if sw.k == "switch":
            some = [tg for v, tg in sw.j["targets"] if v == 1]
            if some and push and cfg.must_pass([p.bb for p in push], src=some[0], dsts={n_.bb}):
                ok = True
    ctx.ob("R20.4", "task-per-key", ok, "every entry of the work list spawns a download task" if ok else "some entries can be skipped without a task", site=main.span)

    # ---- R20.5 exact vs latest
    task = [f for f in bodies if any((t.path or "").endswith("warg_client::Client::download_exact") for t in f.calls())]
    ctx.ob("R20.5", "anchor", len(task) == 1, "task bodies calling download_exact: %d" % len(task), nontrivial=False)
    for f in task:
        tcfg = CFG(f)
        ex = [t for t in f.calls() if (t.path or "") == "warg_client::Client::download_exact"]
        la = [t for t in f.calls() if (t.path or "") == "warg_client::Client::download"]
        # the switch on the key's version
        vsw = None
        for b in f.blocks:
            if b.term.k == "switch" and b.idx != 0:
                op = Operand(b.term.j["discr"])
                for kind, site in prov.defs(f).defs.get(op.place.local if op.place is not None else -1, ()):
                    if kind == "stmt" and site.rv.k == "discr" and "option::Option" in site.rv.j.get("adt", ""):
                        if vsw is None and any(tcfg.dominates(b.idx, t.bb) for t in ex):
                            vsw = b
        ok = False
        why = "versioned keys are not downloaded with download_exact on the Some(version) edge"
        if vsw is not None and ex and la:
            some = [tg for v, tg in vsw.term.j["targets"] if v == 1]
            none = [tg for v, tg in vsw.term.j["targets"] if v == 0] or [vsw.term.j["otherwise"]]
            ok = all(any(tcfg.dominates(x, t.bb) for x in some) for t in ex) and all(any(tcfg.dominates(x, t.bb) for x in none) and not any(tcfg.dominates(x, t.bb) for x in some) for t in la)
            why = "a key with a version uses download_exact(name, version); only unversioned keys use the requirement-based download" if ok else \
                "the requirement-based `download` is (also) used for versioned keys: another release in the compatible range can be returned for an exact version"
        ctx.ob("R20.5", "exact-for-versioned", ok, why, site=f.span)
        star = False
        for t in la:
            sl = prov.slice(f, t.args[2])
            star = star or ("named", "semver::VersionReq::STAR") in sl.consts
            if sl.has_call("VersionReq::parse"):
                star = False
        ctx.ob("R20.5", "latest-is-star", star or not la, "unversioned keys request `*` (latest release)" if star else "the unversioned download does not use VersionReq::STAR", site=f.span)

    # ---- R20.2 key and content from the same task result
    ins = [t for t in main.calls() if (t.path or "").endswith("IndexMap::insert") and "BorrowedPackageKey" in " ".join(t.gen_args)]
    for t in ins:
        ks, vs = prov.slice(main, t.args[1]), prov.slice(main, t.args[2])
        ok = ks.has_call("IndexMap::get_index") and vs.has_call("read_contents")
        shared = {l for l in ks.locals} & {l for l in vs.locals}
        ctx.ob("R20.2", "join-key-content", ok and bool(shared), "the inserted key (keys[index]) and content (download.path) come from the same completed task" if ok and shared else
               "key and content are not taken from one task result", site="%s in %s" % (t.span, main.id))
    ctx.ob("R20.2", "insert-sites", len(ins) == 1, "result inserts: %d" % len(ins), nontrivial=False)

    # ---- R20.3 error attribution
    for f in bodies:
        for s in f.stmts():
            if s.rv.k == "agg" and s.rv.j.get("adt", "") == "wac_resolver::Error" and s.rv.j.get("variant") in ("PackageVersionDoesNotExist", "PackageNoReleases", "PackageDoesNotExist", "InvalidPackageName"):
                ops = dict(zip(s.rv.j["fields"], s.rv.ops))
                sp = prov.slice(f, ops["span"])
                v = s.rv.j["variant"]
                if v == "PackageDoesNotExist":
                    ok = sp.has_call("::find") and not sp.has_call("get_index_of")
                    why = "the span is found by matching the missing package's name against the per-key list" if ok else "the span of a missing package is not looked up by name in the per-key list"
                else:
                    # captured with the key (closure upvar) or taken from the same (key, span) pair
                    ok = bool(sp.params) or sp.has_call("IndexMap::iter") or sp.has_call("::next")
                    why = "the span is the one captured together with the failing key" if ok else "the span does not come from the failing key's entry"
                ctx.ob("R20.3", "span|" + v, ok, why, site="%s in %s" % (s.span, f.id))
    ctx.floor("R20.3", 3)
    have = {s.rv.j.get("variant") for f in bodies for s in f.stmts() if s.rv.k == "agg" and s.rv.j.get("adt", "") == "wac_resolver::Error"}
    ctx.ob("R20.3", "no-release-is-an-error", "PackageNoReleases" in have,
           "an unversioned key whose package has no selectable release is reported (PackageNoReleases)" if "PackageNoReleases" in have else
           "PackageNoReleases is never constructed in resolve: a `None` from the release selection is dropped silently (the key is missing from the result instead of being an error)")
    c18.check_cli_resolver(c19.ctx_rule(ctx, "R20.6"))
