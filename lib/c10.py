"""C10 — plugging satisfies every matchable socket import and re-exports the socket."""
from cfg import CFG, error_blocks
from prov import narrow
from pat import *

EXPLANATION = ("structural rules over the MIR of wac_graph::plug::plug and its closures: exact-name lookup precedes the semver "
               "fallback, a pair is recorded only on the Ok edge of is_subtype(plug export, socket import), the plug is instantiated "
               "lazily at most once per plug, NoPlugHappened is returned exactly when the socket received no argument, every socket "
               "export is aliased and exported under its own name, graph errors are propagated. Necessary conditions only; which plug "
               "wins for a given library is not decided")

PLUG = "wac_graph::plug::plug"
CG = "wac_graph::graph::CompositionGraph::"


def run(ctx):
    db, prov = ctx.db, ctx.prov
    f = db.fn(PLUG)
    bodies = db.with_closures(f)
    for b in bodies:
        ctx.touch(b)
    cfg = CFG(f)

    # ---- R10.1 exact lookup first, semver scan only on the miss edge
    semver_calls = [(b, t) for b in bodies for t in b.calls() if (t.path or "").endswith("names::are_semver_compatible")]
    or_else = [t for t in f.calls() if (t.path or "").endswith("Option::or_else")]
    ok = False
    why = "no `imports.get(name).or_else(<semver scan>)` shape found"
    for t in or_else:
        rs = prov.slice(f, t.args[0], follow_closures=False)
        exact = any((c.path or "").endswith("IndexMap::get") and narrow(prov, cf, c.args[0]).has_field("imports", "component::World") for cf, c in rs.calls)
        clos = {strip(x) for x in t.fnargs}
        inner = all(any(b.id == c or b.id.startswith(c + "::") for c in clos) for b, _ in semver_calls) and bool(semver_calls)
        if exact and inner:
            ok = True
            why = "exact `imports.get(name)` is tried first; are_semver_compatible is only reachable from the or_else (miss) closure"
    ctx.ob("R10.1", "exact-before-semver", ok, why, site=f.span)
    # the semver fallback looks at *every* socket import: no filter/skip/take narrows the candidates before the match (a
    # candidate hidden because an earlier plug already supplied it turns the documented conflict into a silent drop)
    NARROW = ("filter", "skip", "take", "skip_while", "take_while", "step_by", "filter_map")
    for b, t in semver_calls:
        host = b
        # the `find`/`position` call the predicate closure is handed to, in the closure's parent
        par = db.fns.get(host.id.rsplit("::{closure", 1)[0]) if "{closure" in host.id else None
        adaptors = []
        if par is not None:
            for c in par.calls():
                if any(strip(fa) == host.id for fa in c.fnargs):
                    rs = prov.slice(par, c.args[0], follow_closures=False)
                    adaptors = sorted({(x.path or "").rsplit("::", 1)[-1] for _, x in rs.calls} & set(NARROW))
                    whole = rs.has_field("imports", "component::World") or prov.slice(par, c.args[0]).has_field("imports", "component::World")   # (through a captured `&imports` binding)
                    ctx.ob("R10.1", "semver-scan-whole-map", whole and not adaptors,
                           "the semver-compatible scan ranges over all socket imports" if whole and not adaptors else
                           "the semver-compatible scan is narrowed by %s before matching: a compatible import that is skipped (e.g. one already supplied) is neither plugged nor reported as a conflict" % (adaptors or "a different collection"),
                           site="%s in %s" % (c.span, par.id))
    # every plug and every export of every plug is examined: the loops of plug() are left only when exhausted or with an error
    for nx, kinds in loop_exit_kinds(f, cfg):
        early = sorted(k for k in kinds if k not in ("Err", "residual"))
        # exits that reach the code after the loop without an error are `break`s: find blocks of the body whose successor leaves it
        sw = cfg.blocks[nx.target].term if nx.target is not None else None
        some = [tg for v, tg in sw.j["targets"] if v == 1] if sw is not None and sw.k == "switch" else []
        brk = []
        if some:
            region = cfg.reach_from(some[0], cut={nx.bb})
            body = {x for x in region if cfg.reaches(x, nx.bb)}
            errs = error_blocks(f)
            leaks = [x for x in region - body if not cfg.diverges(x) and cfg.blocks[x].term.k != "unreachable" and any(p in body for p in cfg.pred[x])]
            for x in leaks:
                if x in errs:
                    continue
                if set(cfg.exits()) & cfg.reach_from(x, cut=errs):     # a normal return is reachable from here without an error
                    brk.append(cfg.blocks[x].term.span)
        ctx.ob("R10.2", "scan-complete@%s" % ordinal(f, nx), not brk,
               "the loop is left only when its iterator is exhausted (or with an error)" if not brk else
               "a loop of plug() can be left early without an error (%s): later exports of the plug / later plugs are never examined — a compatible export is not plugged, or a conflicting plug is not reported" % brk[0],
               site="%s in %s" % (nx.span, f.id))
    ctx.ob("R10.1", "semver-sites", len(semver_calls) >= 1, "are_semver_compatible call sites in plug: %d" % len(semver_calls), nontrivial=False)

    # ---- R10.2 subtype filter, plug on the left, recorded on the Ok edge
    pushes = [t for t in f.calls() if (t.path or "").endswith("Vec::push")]
    checks = [t for t in f.calls() if (t.path or "") == "wac_types::checker::SubtypeChecker::is_subtype"]
    ctx.ob("R10.2", "anchor", len(checks) == 1 and len(pushes) >= 1, "is_subtype sites=%d push sites=%d" % (len(checks), len(pushes)), nontrivial=False)
    for c in checks:
        s_sub, s_sup = prov.slice(f, c.args[1]), prov.slice(f, c.args[3])
        left_plug = s_sub.has_field("exports", "component::World") and not s_sub.has_field("imports", "component::World")
        right_socket = s_sup.has_field("imports", "component::World")
        ctx.ob("R10.2", "direction", left_plug and right_socket,
               "is_subtype(plug export kind, socket import kind)" if left_plug and right_socket else
               "subtype check is not (plug export <: socket import): sub from exports=%s, super from imports=%s" % (left_plug, right_socket),
               site="%s in %s" % (c.span, f.id))
        # the push is dominated by the true edge of is_ok(check)
        okedge = False
        for t in f.calls():
            if (t.path or "").endswith("Result::is_ok") and t.target is not None and any(x is c for _, x in prov.slice(f, t.args[0]).calls):
                sw = switch_after(cfg, t)
                if sw is not None:
                    tt, ft = true_false_targets(sw)
                    if all(any(cfg.dominates(x, p.bb) for x in tt) and not any(cfg.dominates(x, p.bb) for x in ft) for p in pushes):
                        okedge = True
        ctx.ob("R10.2", "record-on-ok", okedge,
               "a (plug export, socket import) pair is recorded only on the Ok edge of the subtype check" if okedge else
               "pairs are recorded without (or regardless of) a successful subtype check", site="%s in %s" % (c.span, f.id))

    # ---- R10.3 lazy, at most one instantiation per plug
    inst_main = [t for t in f.calls() if t.path == CG + "instantiate"]
    in_loop = [t for t in inst_main if cfg.reaches(t.bb, t.bb)]
    # accepted idiom: `if cache.is_none() { cache = Some(graph.instantiate(plug)) }` — an instantiate guarded by is_none() of the
    # Option that receives its result
    def guarded_by_is_none(t):
        for c in f.calls():
            if (c.path or "").endswith("Option::is_none") and c.target is not None:
                sw = switch_after(cfg, c)
                if sw is not None:
                    tt, ft = true_false_targets(sw)
                    if any(cfg.dominates(x, t.bb) for x in tt) and not any(cfg.dominates(x, t.bb) for x in ft):
                        return True
        return False
    lazy_guarded = [t for t in in_loop if guarded_by_is_none(t)]
    in_loop = [t for t in in_loop if t not in lazy_guarded]
    ctx.ob("R10.3", "no-eager-instantiate", not in_loop,
           "plug() itself instantiates only outside loops (the socket, once)" if not in_loop else
           "a package is instantiated directly inside the per-plug/per-export loop (once per iteration instead of at most once per plug)",
           site="%s in %s" % (in_loop[0].span if in_loop else f.span, f.id))
    lazy = [t for t in f.calls() if (t.path or "").endswith("Option::get_or_insert_with")]
    okl = False
    for t in lazy:
        clos = [db.fns.get(strip(x)) for x in t.fnargs]
        if any(c is not None and any(x.path == CG + "instantiate" for x in c.calls()) for c in clos) and cfg.reaches(t.bb, t.bb):
            # the Option it caches in is reset outside the inner loop: its `None` assignment is not inside the innermost cycle of the lazy call
            okl = True
    okl = okl or bool(lazy_guarded)
    ctx.ob("R10.3", "lazy", okl, "the plug is instantiated through Option::get_or_insert_with inside the loop over recorded pairs" if okl else
           "no lazy (get_or_insert_with) instantiation of the plug found", site=f.span)
    other = [(b, t) for b in bodies[1:] for t in b.calls() if t.path == CG + "instantiate"]
    lazy_clos = {strip(x) for t in lazy for x in t.fnargs}
    stray = [b.id for b, t in other if b.id not in lazy_clos]
    ctx.ob("R10.3", "only-lazy-closure", not stray, "instantiate is called from closures other than the lazy initialiser: %s" % stray if stray else
           "the only closure that instantiates is the lazy initialiser")

    # ---- R10.4 NoPlugHappened exactly when the socket has no argument edges
    errs = [s for s in f.stmts() if s.rv.k == "agg" and s.rv.j.get("variant") == "NoPlugHappened"]
    ctx.ob("R10.4", "anchor", len(errs) == 1, "NoPlugHappened construction sites: %d" % len(errs), nontrivial=False)
    for s in errs:
        ok4 = False
        why4 = "NoPlugHappened is not guarded by a query of the socket's instantiation arguments"
        for t in f.calls():
            if (t.path or "").endswith("Option::is_none") and t.target is not None:
                sl = prov.slice(f, t.args[0])
                q = [x for _, x in sl.calls if x.path == CG + "get_instantiation_arguments"]
                if q and sl.has_call("::next"):
                    sock = any(x.path == CG + "instantiate" for _, x in prov.slice(f, q[0].args[1]).calls)
                    sw = switch_after(cfg, t)
                    if sw is not None and sock:
                        tt, ft = true_false_targets(sw)
                        if any(cfg.dominates(x, s.bb) for x in tt) and not any(cfg.dominates(x, s.bb) for x in ft):
                            ok4 = True
                            why4 = "returned exactly on the edge where get_instantiation_arguments(socket).next() is None"
        if not ok4:
            # accepted alternative: a flag that is only ever set to the constant `true` inside the loop
            ok4, why4b = flag_idiom(ctx, f, cfg, s)
            if ok4:
                why4 = why4b
        if not ok4:
            ok4, why4b = tracker_idiom(ctx, f, cfg, s)
            if ok4:
                why4 = why4b
        ctx.ob("R10.4", "no-plug-edge", ok4, why4, site="%s in %s" % (s.span, f.id))

    # ---- R10.5 socket exports re-exported under their own names
    exps = [t for t in f.calls() if t.path == CG + "export"]
    ctx.ob("R10.5", "anchor", len(exps) >= 1, "export sites: %d" % len(exps), nontrivial=False)
    for t in exps:
        ns = prov.slice(f, t.args[2])
        node = prov.slice(f, t.args[1])
        keys = ns.has_field("exports", "component::World") and (ns.has_call("::keys") or ns.has_call("::iter"))
        aliases = [x for _, x in node.calls if x.path == CG + "alias_instance_export"]
        same = False
        sock = False
        for a in aliases:
            an = prov.slice(f, a.args[2])
            same = same or bool({l for l in an.locals} & {l for l in ns.locals})
            sock = sock or any(x.path == CG + "instantiate" and not cfg.reaches(x.bb, x.bb) for _, x in prov.slice(f, a.args[1]).calls)
        ok5 = keys and bool(aliases) and same and sock
        ctx.ob("R10.5", "re-export", ok5,
               "every key of the socket world's exports is aliased from the socket instance and exported under the same string" if ok5 else
               "socket re-export is not (alias(socket, name) -> export(.., name)) over the socket world's export names: keys=%s alias=%s same-name=%s from-socket=%s" % (keys, bool(aliases), same, sock),
               site="%s in %s" % (t.span, f.id))

    # ---- R10.6 graph errors are propagated
    for t in f.calls():
        if t.path in (CG + "alias_instance_export", CG + "set_instantiation_argument", CG + "export"):
            prop = any((c.declared or "").endswith("Try::branch") and any(x is t for _, x in prov.slice(f, c.args[0]).calls) for c in f.calls())
            ctx.ob("R10.6", "propagate|%s@%d" % (t.path.rsplit("::", 1)[1], ordinal(f, t)), prop,
                   "the Result of the graph operation reaches `?`" if prop else "the Result of the graph operation is discarded (a second provider for one import would be silently ignored)",
                   site="%s in %s" % (t.span, f.id))
    ctx.floor("R10.6", 4)

    semver_equality(ctx, "R10.1")


def flag_idiom(ctx, f, cfg, errstmt):
    """`let mut plugged = false; loop { plugged = true } if !plugged { Err }`: the flag's only non-initial writes are the constant true."""
    prov = ctx.prov
    d = prov.defs(f)
    for l, ds in d.defs.items():
        if f.local_ty(l) != "bool" or not f.local_name(l):
            continue
        vals = []
        for kind, site in ds:
            if kind != "stmt":
                vals.append("call")
                continue
            v = site.rv.ops[0].const_value() if site.rv.k == "use" and site.rv.ops else None
            vals.append(v[1] if v and v[0] == "bool" else "computed")
        if set(vals) <= {True, False} and True in vals and False in vals:
            # guards the error?
            for b in f.blocks:
                t = b.term
                if t.k == "switch":
                    sl = prov.slice(f, facts_operand(t))
                    if (f.id, l) in sl.locals:
                        tt, ft = true_false_targets(t)
                        if any(cfg.dominates(x, errstmt.bb) for x in ft) or any(cfg.dominates(x, errstmt.bb) for x in tt):
                            return True, "guarded by flag `%s` that is only ever set to the constant true inside the loop" % f.local_name(l)
    return False, ""


def tracker_idiom(ctx, f, cfg, errstmt):
    """`let mut plugged = HashSet/Vec::new(); … set_instantiation_argument(..)?; plugged.insert(..) … if plugged.is_empty() { Err }`:
    a local collection that grows only after a successful set_instantiation_argument and whose emptiness guards the error."""
    prov = ctx.prov
    sets = [t for t in f.calls() if t.path == CG + "set_instantiation_argument"]
    for b in f.blocks:
        t = b.term
        if t.k != "switch" or not cfg.dominates(b.idx, errstmt.bb):
            continue
        sl = prov.slice(f, facts_operand(t))
        tests = [c for _, c in sl.calls if (c.path or "").rsplit("::", 1)[-1] in ("is_empty", "len")]
        for c in tests:
            recv = narrow(prov, f, c.args[0]).locals
            named = {l for fid, l in recv if fid == f.id and f.local_name(l) and l > f.arg_count}
            if not named:
                continue
            grows = [g for g in f.calls() if (g.path or "").rsplit("::", 1)[-1] in ("insert", "push", "extend", "push_back")
                     and {l for fid, l in narrow(prov, f, g.args[0]).locals if fid == f.id} & named]
            if grows and sets and all(any(cfg.dominates(sc.bb, g.bb) and g.bb not in error_blocks(f) for sc in sets) for g in grows):
                return True, "guarded by the emptiness of `%s`, which grows only after a successful set_instantiation_argument" % "/".join(sorted(f.local_name(l) for l in named))
    return False, ""


def facts_operand(t):
    from facts import Operand
    return Operand(t.j["discr"])


def strip(x):
    from facts import strip_generics
    return strip_generics(x)


def ordinal(f, t):
    k = 0
    for c in f.calls():
        if c is t:
            return k
        if c.path == t.path:
            k += 1
    return k


def semver_equality(ctx, rule):
    """a semver track key obtained from alternate_lookup_key may only be compared by equality / used as a map key:
    prefix or substring tests on it conflate tracks such as 0.2 and 0.20."""
    db, prov = ctx.db, ctx.prov
    n = 0
    for f in db.fns.values():
        if f.crate not in ("wac_types", "wac_graph"):
            continue
        if "{closure" in f.id or not any((t.path or "").endswith("names::alternate_lookup_key") for t in f.calls()):
            continue
        ctx.touch(f)
        for g, t in [(g, t) for g in db.with_closures(f) for t in g.calls()]:
            p = t.path or ""
            if p.endswith(("str::starts_with", "str::ends_with", "str::contains", "str::strip_prefix", "str::find", "str::rfind", "str::split_once")) and "names::alternate_lookup_key" not in f.id:
                for a in t.args:
                    if any((x.path or "").endswith("names::alternate_lookup_key") for _, x in prov.slice(g, a).calls):
                        n += 1
                        ctx.ob(rule, "track-key-equality|%s" % f.id, False,
                               "a semver track key flows into `%s`: tracks must be compared by equality of their keys (0.2 is a prefix of 0.20)" % p.rsplit("::", 1)[1],
                               site="%s in %s" % (t.span, f.id))
    # the key itself: the track of `0.y.z…` ends at the SECOND dot of the version, found by searching forward from the first
    # one — a reverse search lands inside dotted build metadata / pre-release identifiers (`0.2.3+build.5`)
    k = db.fns.get("wac_types::names::alternate_lookup_key")
    if k is None:
        ctx.lost(rule, "wac_types::names::alternate_lookup_key")
    else:
        ctx.touch(k)
        rev = [t for t in k.calls() if "str" in (t.path or "") and (t.path or "").rsplit("::", 1)[-1] in ("rfind", "rsplit", "rsplit_once", "rsplitn", "rmatch_indices", "rsplit_terminator")
               and len(t.args) > 1 and t.args[1].const_value() == ("char", ord("."))]
        fwd = [t for t in k.calls() if "str" in (t.path or "") and (t.path or "").rsplit("::", 1)[-1] in ("find", "split", "split_once", "splitn", "match_indices")
               and len(t.args) > 1 and t.args[1].const_value() == ("char", ord("."))]
        ctx.ob(rule, "track-key-forward-dots", not rev and len(fwd) >= 1,
               "the dots that delimit a track are found by forward searches (%d)" % len(fwd) if not rev and fwd else
               "alternate_lookup_key locates a version dot with a reverse search (%s): versions with dotted build metadata or pre-release parts fall off their track"
               % ", ".join(t.path.rsplit("::", 1)[-1] for t in rev) if rev else "no forward dot search found in alternate_lookup_key", site=k.span)
    f = db.fns.get("wac_types::names::are_semver_compatible")
    if f is None:
        ctx.lost(rule, "wac_types::names::are_semver_compatible")
        return
    ctx.touch(f)
    keys = [t for t in f.calls() if (t.path or "").endswith("names::alternate_lookup_key")]
    both = {i for t in keys for fid, i in prov.slice(f, t.args[0]).params}
    eq = any((t.declared or "").endswith(("PartialEq::eq", "PartialEq::ne")) and
             sum(1 for _, x in prov.slice(f, t.args[0]).calls + prov.slice(f, t.args[1]).calls if x in keys) >= 2 for t in f.calls()) or \
        any(s.rv.k == "bin" and s.rv.op in ("Eq", "Ne") for s in f.stmts())
    if not eq:
        # the comparison may sit in a closure applied to the pair of keys (`ka.zip(kb).is_some_and(|(a, b)| a == b)`)
        for c in f.calls():
            for fa in c.fnargs:
                g = db.fns.get(strip(fa))
                if g is None or not c.args:
                    continue
                has_eq = any((t.declared or "").endswith(("PartialEq::eq", "PartialEq::ne")) for t in g.calls()) or any(st.rv.k == "bin" and st.rv.op in ("Eq", "Ne") for st in g.stmts())
                if has_eq and sum(1 for _, x in prov.slice(f, c.args[0]).calls if x in keys) >= 2:
                    eq = True
    ok = len(keys) >= 2 and both >= {1, 2} and eq
    # identical names are compatible whether or not they have a semver track (pre-releases, 0.0.x): the two parameters are
    # compared with each other directly, outside any version-shape test
    cfgf = CFG(f)
    direct = []
    for t in f.calls():
        if (t.declared or "").endswith(("PartialEq::eq", "PartialEq::ne")) and len(t.args) >= 2:
            pa = {i for fid, i in narrow(prov, f, t.args[0]).params if fid == f.id}
            pb = {i for fid, i in narrow(prov, f, t.args[1]).params if fid == f.id}
            if pa | pb >= {1, 2} and not any(x in keys for _, x in prov.slice(f, t.args[0]).calls + prov.slice(f, t.args[1]).calls):
                direct.append(t)
    unconditional = [t for t in direct if not any(b.term.k == "switch" and cfgf.dominates(b.idx, t.bb) and b.idx != t.bb for b in f.blocks)]
    ctx.ob(rule, "identical-names-compatible", bool(unconditional),
           "a name is compatible with itself: `a == b` is tested before anything else" if unconditional else
           "are_semver_compatible has no unconditional `a == b` test%s: a versioned name without a semver track (pre-release, 0.0.x) is not compatible with itself, so two contributors "
           "using the same such interface cannot be merged" % (" (the direct comparison is only reached under a version-shape test)" if direct else ""), site=f.span)
    ctx.ob(rule, "track-key-equality|are_semver_compatible", ok,
           "compatibility = equality of the track keys of both names" if ok else
           "are_semver_compatible does not compare the track keys of *both* names by equality (keys computed for params %s, equality=%s)" % (sorted(both), eq),
           site=f.span)
