"""C03 — output imports/exports are exactly those implied; implicit imports are shared (structural part)."""
from cfg import CFG, error_blocks
from prov import narrow
from pat import *
from facts import Operand, strip_generics
import c01, c02, c06, c09, c16

EXPLANATION = ("sibling cross-check and provenance rules: CompositionGraph::imports() and the encoder's import resolution enumerate the "
               "same set (instantiation nodes, world imports filtered by the negated satisfied-argument test, then explicit import "
               "nodes); the explicit-import conflict test dominates every implicit aggregate; lookups into the encoded-import table go "
               "through canonical_import_name; the highest-version/redirect branch structure (C09 R09.3), merge targets, export "
               "emission (C02 R02.3) and removal bookkeeping (C06 R06.1) are re-checked under this property; no hash order on the "
               "import/export path (C16). Necessary conditions; that merged types offer the union is not decided")

GR = "wac_graph::graph::"


def unsatisfied_filter(ctx, f, rule):
    """the body enumerates world.imports and keeps the entries whose index is NOT satisfied."""
    db, prov = ctx.db, ctx.prov
    bodies = db.with_closures(f)
    ok = False
    why = "no filter `!node.is_arg_satisfied(i)` over `imports.iter().enumerate()` found"
    # the filter may live in a private helper of the graph that the body calls (look through two levels of local callees)
    hosts = [f]
    frontier = [f]
    for _ in range(2):
        nxt = []
        for g in frontier:
            for t in g.calls():
                h = db.fns.get(t.path or "")
                if h is not None and h.crate == "wac_graph" and h not in hosts and "{closure" not in h.id:
                    hosts.append(h)
                    nxt.append(h)
        frontier = nxt
    for f_, t in [(g, t) for g in hosts for t in g.calls()]:
        if ok:
            break
        if not (t.path or "").endswith("Iterator::filter"):
            continue
        rs = prov.slice(f_, t.args[0], follow_closures=False)
        if not (rs.has_field("imports", "component::World") and rs.has_call("Iterator::enumerate")):
            continue
        for fa in t.fnargs:
            c = db.fns.get(strip_generics(fa))
            if c is None:
                continue
            ctx.touch(c)
            calls = [x for x in c.calls() if x.path == GR + "Node::is_arg_satisfied"]
            nots = [s for s in c.stmts() if s.rv.k == "un" and s.rv.op == "Not" and any(y in calls for _, y in prov.slice(c, s.rv.ops[0]).calls)]
            ret_not = any(s.lhs.local == 0 for s in nots)
            ok = bool(calls) and ret_not
            why = "unsatisfied = world imports whose index fails is_arg_satisfied (negated)" if ok else \
                "the satisfied-argument test is not negated (or missing) in the filter: satisfied arguments would be imported and unsatisfied ones dropped"
    ctx.ob(rule, "unsatisfied-filter|" + f.id.split("::")[-1], ok, why, site=f.span)
    # only instantiation nodes are considered
    ds = [s for g in hosts for s in g.stmts() if s.rv.k == "discr" and s.rv.j.get("adt", "").endswith("graph::NodeKind")]
    ctx.ob(rule, "instantiations-only|" + f.id.split("::")[-1], bool(ds), "nodes are filtered by NodeKind::Instantiation" if ds else "node kinds are not tested", site=f.span, nontrivial=False)
    return ok


def run(ctx):
    db, prov = ctx.db, ctx.prov
    lst = db.fn(GR + "CompositionGraph::imports")
    res = db.fn(GR + "CompositionGraphEncoder::resolve_imports")
    ctx.touch(lst)
    ctx.touch(res)
    unsatisfied_filter(ctx, lst, "R03.1")
    unsatisfied_filter(ctx, res, "R03.1")
    # both add the explicit import nodes
    for f in (lst, res):
        ok = any(s.rv.k == "discr" and s.rv.j.get("adt", "").endswith("graph::NodeKind") for s in f.stmts()) and \
            any(any(n == "0" and v == "Import" for n, o, v in (pl.fields() if pl is not None else [])) for s in f.stmts() for pl in [s.rv.place] + [o.place for o in s.rv.ops])
        ctx.ob("R03.1", "explicit-imports|" + f.id.split("::")[-1], ok, "explicit import nodes are listed under their own names" if ok else "explicit import nodes are not enumerated", site=f.span)

    # R03.2 conflict before merge
    cfg = CFG(res)
    aggs = [t for t in res.calls() if t.path == "wac_types::aggregator::TypeAggregator::aggregate"]
    ctx.ob("R03.2", "anchor", len(aggs) == 2, "aggregate call sites in resolve_imports: %d" % len(aggs), nontrivial=False)
    lookups = [t for t in res.calls() if (t.path or "").endswith("HashMap::get") and narrow(prov, res, t.args[0]).has_field("imports", "graph::CompositionGraph")]
    conflict = [s for s in res.stmts() if s.rv.k == "agg" and s.rv.j.get("variant") == "ImplicitImportConflict"]
    implicit = [t for t in aggs if cfg.reaches(t.bb, t.bb) and any(cfg.dominates(l.bb, t.bb) for l in lookups)]
    ok = bool(lookups) and bool(conflict) and bool(implicit)
    if ok:
        # the hit edge of the lookup returns the conflict
        l = lookups[0]
        okhit = False
        for b in res.blocks:
            if b.term.k == "switch" and any(x is l for _, x in prov.slice(res, Operand(b.term.j["discr"])).calls):
                hit = [tg for v, tg in b.term.j["targets"] if v == 1]
                if any(cfg.dominates(h, conflict[0].bb) for h in hit):
                    okhit = True
        ok = okhit
    ctx.ob("R03.2", "conflict-before-merge", ok, "an unsatisfied argument whose name is an explicit import is rejected (ImplicitImportConflict) before it is aggregated" if ok else
           "implicit arguments are aggregated without first testing for an explicit import of the same name", site=res.span)
    mc = [s for s in db.with_closures(res) for s in s.stmts() if s.rv.k == "agg" and s.rv.j.get("variant") == "ImportTypeMergeConflict"]
    ctx.ob("R03.2", "merge-conflict-error", bool(mc), "aggregate errors become ImportTypeMergeConflict" if mc else "aggregate errors are not mapped to ImportTypeMergeConflict", site=res.span)

    # R03.3 canonical lookup
    enc = db.fn(GR + "CompositionGraphEncoder::encode_imports")
    ctx.touch(enc)
    idx = [t for t in enc.calls() if (t.declared or "").endswith("ops::index::Index::index") and "HashMap" in enc.local_ty(t.args[0].place.local)]
    ctx.ob("R03.3", "anchor", len(idx) >= 2, "lookups into the encoded-import table: %d" % len(idx), nontrivial=False)
    for i, t in enumerate(idx):
        ks = prov.slice(enc, t.args[1])
        ok = ks.has_call("aggregator::TypeAggregator::canonical_import_name")
        ctx.ob("R03.3", "canonical-lookup@%d" % i, ok, "the encoded import is looked up under canonical_import_name(name)" if ok else
               "the encoded-import table is indexed with the raw name: a name superseded by a higher compatible version is not found (panic) or resolves to the wrong import", site="%s in %s" % (t.span, enc.id))
    # every aggregated import is encoded once, keyed by its aggregated name
    ins = [t for t in enc.calls() if (t.path or "").endswith("HashMap::insert") and "HashMap" in enc.local_ty(t.args[0].place.local) and cfg_in_loop(enc, t)]
    ok = any(prov.slice(enc, t.args[1]).has_call("TypeAggregator::imports") for t in ins)
    ctx.ob("R03.3", "encoded-keyed-by-aggregate", ok, "the encoded-import table is keyed by the aggregator's import names" if ok else "the encoded-import table is not filled from aggregator.imports()", site=enc.span)

    # cross references (recorded under this property's rule ids)
    c09.check_highest(c01.ctx_alias(ctx, "R03.4"))
    merges = [f for f in db.fns.values() if f.id.startswith(c09.AG + "merge_") and "{closure" not in f.id]
    c09.merge_targets(c01.ctx_alias(ctx, "R03.4"), merges, rule="R09.1")
    c02.export_triple(c01.ctx_alias(ctx, "R03.5"))
    c06.run_r061_only(c01.ctx_alias(ctx, "R03.6")) if hasattr(c06, "run_r061_only") else None
    # an argument that is reported as passed but has no edge becomes an extra implicit import (C06 R06.8)
    import engine
    c06.check_argument_scan(engine.AliasCtx(ctx, {"R06.8": "R03.6"}), [f for f in db.fns.values() if f.crate == "wac_graph"])


def cfg_in_loop(f, t):
    c = CFG(f)
    return c.reaches(t.bb, t.bb)
