"""CFG queries over a Fn's MIR blocks (non-cleanup paths only)."""
from collections import defaultdict, deque

PANIC_PREFIXES = (
    "core::panicking::", "std::rt::begin_panic", "std::rt::panic_fmt", "core::panicking::panic",
    "core::option::unwrap_failed", "core::option::expect_failed", "core::result::unwrap_failed",
    "std::process::exit", "std::process::abort", "core::intrinsics::abort",
)


def is_panic_call(term):
    if term.k != "call":
        return False
    p = term.path or ""
    return any(p.startswith(x) for x in PANIC_PREFIXES)


class CFG:
    def __init__(self, fn):
        self.fn = fn
        self.blocks = fn.blocks
        n = len(self.blocks)
        self.succ = [[] for _ in range(n)]
        self.pred = [[] for _ in range(n)]
        for b in self.blocks:
            if b.cleanup:
                continue
            for s in b.term.succs():
                if s is None or self.blocks[s].cleanup:
                    continue
                if s not in self.succ[b.idx]:
                    self.succ[b.idx].append(s)
                    self.pred[s].append(b.idx)
        self._dom = None
        self._pdom = None
        self._reach = {}

    # ---- classification
    def is_return(self, i):
        return self.blocks[i].term.k == "return"

    def diverges(self, i):
        """block ends in a panic / unreachable / no-target call (never returns normally)."""
        t = self.blocks[i].term
        if t.k in ("unreachable", "resume", "terminate"):
            return True
        if t.k == "call" and t.target is None:
            return True
        return False

    def live_blocks(self):
        """blocks reachable from entry over normal edges."""
        return self.reach_from(0)

    def reach_from(self, i, cut=None):
        key = (i, frozenset(cut) if cut else None)
        if key in self._reach:
            return self._reach[key]
        seen = set()
        dq = deque([i])
        while dq:
            x = dq.popleft()
            if x in seen:
                continue
            seen.add(x)
            if cut and x in cut and x != i:
                continue
            for s in self.succ[x]:
                if s not in seen:
                    dq.append(s)
        self._reach[key] = seen
        return seen

    def reaches(self, a, b, cut=None):
        """is there a path a ->+ b (at least one edge) avoiding blocks in cut (as intermediates)?"""
        seen = set()
        dq = deque(self.succ[a])
        while dq:
            x = dq.popleft()
            if x == b:
                return True
            if x in seen or (cut and x in cut):
                continue
            seen.add(x)
            dq.extend(self.succ[x])
        return False

    # ---- dominators (Cooper-Harvey-Kennedy on the live subgraph)
    def dominators(self):
        if self._dom is not None:
            return self._dom
        live = self.live_blocks()
        order = []
        seen = set()

        def dfs(u):
            stack = [(u, iter(self.succ[u]))]
            seen.add(u)
            while stack:
                x, it = stack[-1]
                adv = False
                for s in it:
                    if s not in seen:
                        seen.add(s)
                        stack.append((s, iter(self.succ[s])))
                        adv = True
                        break
                if not adv:
                    order.append(x)
                    stack.pop()
        dfs(0)
        rpo = list(reversed(order))
        idx = {b: i for i, b in enumerate(rpo)}
        idom = {0: 0}
        changed = True
        while changed:
            changed = False
            for b in rpo[1:]:
                preds = [p for p in self.pred[b] if p in idom]
                if not preds:
                    continue
                new = preds[0]
                for p in preds[1:]:
                    a, c = p, new
                    while a != c:
                        while idx[a] > idx[c]:
                            a = idom[a]
                        while idx[c] > idx[a]:
                            c = idom[c]
                    new = a
                if idom.get(b) != new:
                    idom[b] = new
                    changed = True
        self._dom = idom
        return idom

    def dominates(self, a, b):
        """block a dominates block b (reflexive)."""
        idom = self.dominators()
        if b not in idom or a not in idom:
            return False
        x = b
        while True:
            if x == a:
                return True
            if x == 0:
                return a == 0
            x = idom[x]

    def pos_dominates(self, pa, pb):
        """program point (block, stmt index; terminator = len(stmts)) dominance."""
        (ba, ia), (bb, ib) = pa, pb
        if ba == bb:
            return ia <= ib
        return self.dominates(ba, bb)

    # ---- "all paths" queries
    def exits(self, kind="return"):
        return [b.idx for b in self.blocks if not b.cleanup and b.term.k == kind and b.idx in self.live_blocks()]

    def reach_forward(self, i):
        """blocks reachable from i without following back edges (u -> v with v dominating u): the part of the function that
        lies ahead of i in one iteration of any enclosing loop"""
        key = ("fwd", i)
        if key in self._reach:
            return self._reach[key]
        seen = set()
        dq = deque([i])
        while dq:
            x = dq.popleft()
            if x in seen:
                continue
            seen.add(x)
            for s_ in self.succ[x]:
                if s_ not in seen and not self.dominates(s_, x):
                    dq.append(s_)
        self._reach[key] = seen
        return seen

    def must_pass(self, through, src=0, dsts=None, cut=None):
        """every path src ->* dst (dst in dsts, default: returns) passes a block in `through`.
        `cut` blocks are removed from the graph (e.g. error edges)."""
        through = set(through)
        dsts = set(dsts if dsts is not None else self.exits())
        cutset = set(cut or ()) | through
        if src in through:
            return True
        seen = set()
        dq = deque([src])
        while dq:
            x = dq.popleft()
            if x in seen:
                continue
            seen.add(x)
            if x in dsts:
                return False
            for s in self.succ[x]:
                if s not in cutset and s not in seen:
                    dq.append(s)
        return True

    def path_avoiding(self, src, dst_set, avoid):
        """a shortest path (list of blocks) src ->* some dst in dst_set not passing `avoid`, or None."""
        avoid = set(avoid)
        prev = {src: None}
        dq = deque([src])
        while dq:
            x = dq.popleft()
            if x in dst_set and x != src:
                p = []
                while x is not None:
                    p.append(x)
                    x = prev[x]
                return list(reversed(p))
            for s in self.succ[x]:
                if s not in prev and s not in avoid:
                    prev[s] = x
                    dq.append(s)
        if src in dst_set:
            return [src]
        return None

    # ---- switch helpers
    def switch_edges(self, i):
        t = self.blocks[i].term
        if t.k != "switch":
            return None
        return [(v, tgt) for v, tgt in t.j["targets"]], t.j["otherwise"]


def error_blocks(fn):
    """blocks that construct the error return: `_0 = Result::Err(..)`, call to from_residual, or
    anyhow's bail (`_0 = Err(..)` via Result::Err aggregate)."""
    out = set()
    # the return place of the function, and of every helper body inlined into it (facts.DB._inline_new_helpers): an `Err`
    # built for a helper's return is an error exit of the helper (its callers propagate it with `?`)
    rets = {0} | getattr(fn, "inl_rets", set())
    for b in fn.blocks:
        if b.cleanup:
            continue
        for s in b.stmts:
            if s.lhs.local in rets and not s.lhs.proj and s.rv.k == "agg" and s.rv.j.get("variant") == "Err" \
                    and s.rv.j.get("adt", "").endswith("result::Result"):
                out.add(b.idx)
        t = b.term
        if t.k == "call" and t.declared and t.declared.endswith("FromResidual::from_residual") \
                and t.dest.local in rets and not t.dest.proj:
            out.add(b.idx)
    return out


def ok_blocks(fn):
    out = set()
    for b in fn.blocks:
        if b.cleanup:
            continue
        for s in b.stmts:
            if s.lhs.local == 0 and not s.lhs.proj and s.rv.k == "agg" and s.rv.j.get("variant") == "Ok" \
                    and s.rv.j.get("adt", "").endswith("result::Result"):
                out.add(b.idx)
    return out
