"""A5 automata: the token language of each `impl Parse` body, read off its MIR.

States are (basic block, known-next-token) pairs; transitions are labelled by what the call consumes:
  tok:T        parse_token(lexer, T) / a bare lexer.next() after a successful test that the next token is T
  nt:Z         <Z as Parse>::parse(lexer)
  list|Z|U|c   parse_delimited::<Z>(lexer, U, with_commas=c)       (atomic; its own body is checked by R12.7)
  ANY          an unguarded lexer.next()                            (the production fails closed)
parse_optional(lexer, T, cb) is expanded to  (tok:T · cb)?  ; closures are inlined.  Error edges are cut.
The NFA is determinised, minimised and written in a canonical form so that two trees can be compared for
*language equivalence per production*; a shortest distinguishing token string is reported on mismatch."""
import re, json
from collections import defaultdict, deque
from cfg import CFG, error_blocks
from facts import Operand, strip_generics

TOKEN = "wac_parser::lexer::Token"
PARSE_RE = re.compile(r"^wac_parser::<(.+) as ast::Parse<'a>>::parse$")


def prod_name(fid):
    m = PARSE_RE.match(fid)
    if not m:
        return None
    t = m.group(1)
    t = re.sub(r"<'[a-z_]+>", "", t)
    return t.replace("ast::", "").replace("r#", "")


class Builder:
    def __init__(self, db, prov):
        self.db, self.prov = db, prov
        self.cache = {}

    # ---- helpers on one body
    def token_const(self, f, op):
        c = self.prov.const_of(f, op)
        if c and c[0] == "variant" and c[1] == TOKEN:
            return c[2]
        return None

    def peek_token_switch(self, f, d, blk):
        """switch on the discriminant of the Token obtained from lexer.peek(): {target: token} plus otherwise"""
        t = blk.term
        if t.k != "switch":
            return None
        op = Operand(t.j["discr"])
        if op.place is None:
            return None
        for kind, site in d.defs.get(op.place.local, ()):
            if kind == "stmt" and site.rv.k == "discr" and site.rv.j.get("adt") == TOKEN:
                root = site.rv.place.local
                calls = [x for k2, x in d.defs.get(root, ()) if k2 == "call"]
                if any((c.path or "").endswith("lexer::Lexer::peek") for c in calls):
                    out = {}
                    for v, tg in t.j["targets"]:
                        nm = self.db.variant_by_discr(TOKEN, v)
                        out.setdefault(tg, set()).add(nm)
                    return out
        return None

    def bool_peek_token(self, f, d, t):
        """switch on a bool computed as `lexer.peek().map(|(r, _)| matches!(r, Ok(Token::T))).unwrap_or(false)`:
        returns (T, true target, [false targets])"""
        op = Operand(t.j["discr"])
        if op.place is None or op.place.proj or f.local_ty(op.place.local) != "bool":
            return None
        sl = self.prov.slice(f, op)
        if not sl.has_call("lexer::Lexer::peek") or sl.has_call("Lexer::peek2"):
            return None
        toks = set()
        for kind, cid in sl.aggs:
            if kind != "closure":
                continue
            c = self.db.fns.get(cid)
            if c is None:
                continue
            dc = self.prov.defs(c)
            for b in c.blocks:
                if b.term.k != "switch":
                    continue
                o2 = Operand(b.term.j["discr"])
                if o2.place is None:
                    continue
                for k2, site in dc.defs.get(o2.place.local, ()):
                    if k2 == "stmt" and site.rv.k == "discr" and site.rv.j.get("adt") == TOKEN:
                        for v, tg in b.term.j["targets"]:
                            # the arm yields `true`
                            blk = c.blocks[tg]
                            if any(s2.lhs.local == 0 and s2.rv.k == "use" and s2.rv.ops and s2.rv.ops[0].const_value() == ("bool", True) for s2 in blk.stmts):
                                toks.add(self.db.variant_by_discr(TOKEN, v))
        if len(toks) != 1:
            return None
        false_ts = [x for v, x in t.j["targets"] if v == 0]
        return toks.pop(), t.j["otherwise"], false_ts

    def nfa_of(self, f, depth=0):
        """returns (n_states, start, accepting set, transitions list[(s, label|None, t)])"""
        if f.id in self.cache:
            return self.cache[f.id]
        db, prov = self.db, self.prov
        cfg = CFG(f)
        d = prov.defs(f)
        errs = error_blocks(f)
        # blocks that only build an error: `_0 = Err(..)` handled by error_blocks; Lookahead::error results flow there
        ids = {}
        trans = []
        accepting = set()

        def sid(key):
            if key not in ids:
                ids[key] = len(ids)
            return ids[key]
        start = sid((0, None))
        work = deque([(0, None)])
        seen = set()
        extra = [0]

        def fresh():
            extra[0] += 1
            return sid(("x", extra[0]))
        while work:
            b, known = work.popleft()
            if (b, known) in seen:
                continue
            seen.add((b, known))
            s = sid((b, known))
            blk = cfg.blocks[b]
            if b in errs or blk.cleanup:
                continue
            t = blk.term
            if t.k == "return":
                accepting.add(s)
                continue
            if t.k in ("unreachable", "resume", "terminate"):
                continue
            if t.k == "switch":
                # refinement by peeked token
                pts = self.peek_token_switch(f, d, blk)
                if pts is not None:
                    for tg, toks in pts.items():
                        for tk in sorted(toks):
                            if known is not None and known != tk:
                                continue
                            trans.append((s, None, sid((tg, tk))))
                            work.append((tg, tk))
                    o = t.j["otherwise"]
                    trans.append((s, None, sid((o, known))))
                    work.append((o, known))
                    continue
                bt = self.bool_peek_token(f, d, t)
                if bt is not None:
                    tk, true_t, false_ts = bt
                    for x in false_ts:
                        trans.append((s, None, sid((x, known))))
                        work.append((x, known))
                    if known is None or known == tk:
                        trans.append((s, None, sid((true_t, tk))))
                        work.append((true_t, tk))
                    continue
                for x in cfg.succ[b]:
                    trans.append((s, None, sid((x, known))))
                    work.append((x, known))
                continue
            if t.k != "call":
                for x in cfg.succ[b]:
                    trans.append((s, None, sid((x, known))))
                    work.append((x, known))
                continue
            p = t.path or ""
            tgt = t.target
            if tgt is None:
                continue   # diverges
            if p == "wac_parser::ast::Lookahead::peek":
                tk = self.token_const(f, t.args[1])
                sw = cfg.blocks[tgt]
                if tk is not None and sw.term.k == "switch":
                    false_t = [x for v, x in sw.term.j["targets"] if v == 0]
                    true_t = sw.term.j["otherwise"]
                    # stay in the switch block with refined knowledge
                    for x in false_t:
                        trans.append((s, None, sid((x, known))))
                        work.append((x, known))
                    if known is None or known == tk:
                        trans.append((s, None, sid((true_t, tk))))
                        work.append((true_t, tk))
                    continue
                trans.append((s, None, sid((tgt, known))))
                work.append((tgt, known))
                continue
            if p == "wac_parser::ast::parse_token":
                tk = self.token_const(f, t.args[1]) or "?"
                if known is not None and known != tk:
                    continue    # this path fails: the next token is known to be another one
                trans.append((s, "tok:" + tk, sid((tgt, None))))
                work.append((tgt, None))
                continue
            if "lexer::Lexer" in p and p.endswith("::next"):
                # EOF assertion?  (result only tested with is_none)
                lab = ("tok:" + known) if known is not None else "ANY"
                users = [c for c in f.calls() if c is not t and any(x is t for _, x in prov.slice(f, c.args[0]).calls)] if known is None else []
                if known is None and users and all((c.path or "").endswith(("Option::is_none", "Option::is_some")) for c in users):
                    lab = None
                trans.append((s, lab, sid((tgt, None))))
                work.append((tgt, None))
                continue
            m = PARSE_RE.match(p)
            if m or (t.declared or "").endswith("ast::Parse::parse"):
                z = prod_name(p) if m else "?generic"
                lab = None if z and z.startswith("alloc::vec::Vec<DocComment") else "nt:" + str(z)
                trans.append((s, lab, sid((tgt, None))))
                work.append((tgt, None))
                continue
            if p == "wac_parser::ast::parse_delimited":
                z = re.sub(r"<'[a-z_]+>", "", t.gen_args[0] if t.gen_args else "?").replace("ast::", "").replace("r#", "")
                until = self.token_const(f, t.args[1]) or "?"
                c = prov.const_of(f, t.args[2])
                commas = c[1] if c and c[0] == "bool" else "?"
                trans.append((s, "list|%s|%s|%s" % (z, until, "commas" if commas is True else "nocommas" if commas is False else "?"), sid((tgt, None))))
                work.append((tgt, None))
                continue
            if p == "wac_parser::ast::parse_optional":
                tk = self.token_const(f, t.args[1]) or "?"
                # skip edge
                trans.append((s, None, sid((tgt, known))))
                work.append((tgt, known))
                if known is None or known == tk:
                    mid = fresh()
                    trans.append((s, "tok:" + tk, mid))
                    self.splice_callback(f, t, mid, sid((tgt, None)), trans, fresh, depth)
                    work.append((tgt, None))
                continue
            if p in db.fns and depth < 4 and (t.path or "").startswith("wac_parser::"):
                g = db.fns[p]
                # a local closure / helper function taking the lexer: inline its automaton
                if any("lexer::Lexer" in g.local_ty(i) for i in range(1, g.arg_count + 1)):
                    self.splice(g, s, sid((tgt, None)), trans, fresh, depth)
                    work.append((tgt, None))
                    continue
            # anything else does not consume
            trans.append((s, None, sid((tgt, known))))
            work.append((tgt, known))
        res = (len(ids), start, accepting, trans)
        self.cache[f.id] = res
        return res

    def splice(self, g, s_from, s_to, trans, fresh, depth):
        n, st, acc, tr = self.nfa_of(g, depth + 1)
        m = {}

        def mp(x):
            if x not in m:
                m[x] = fresh()
            return m[x]
        trans.append((s_from, None, mp(st)))
        for a, lab, b in tr:
            trans.append((mp(a), lab, mp(b)))
        for a in acc:
            trans.append((mp(a), None, s_to))

    def splice_callback(self, f, t, s_from, s_to, trans, fresh, depth):
        cb = None
        for fa in t.fnargs:
            cb = strip_generics(fa)
        v = t.args[2].const_value() if len(t.args) > 2 else None
        if v and v[0] == "fn":
            cb = strip_generics(v[1])
        if cb is None:
            trans.append((s_from, "nt:?callback", s_to))
            return
        m = PARSE_RE.match(cb)
        if m:
            trans.append((s_from, "nt:" + prod_name(cb), s_to))
        elif cb in self.db.fns:
            self.splice(self.db.fns[cb], s_from, s_to, trans, fresh, depth)
        else:
            trans.append((s_from, "nt:?callback", s_to))


# ---------------------------------------------------------------------------------------------------------
def determinize(n, start, acc, trans):
    eps = defaultdict(set)
    step = defaultdict(lambda: defaultdict(set))
    for a, lab, b in trans:
        if lab is None:
            eps[a].add(b)
        else:
            step[a][lab].add(b)

    def closure(S):
        S = set(S)
        st = list(S)
        while st:
            x = st.pop()
            for y in eps[x]:
                if y not in S:
                    S.add(y)
                    st.append(y)
        return frozenset(S)
    s0 = closure({start})
    ids = {s0: 0}
    dtrans = {}
    dacc = set()
    dq = deque([s0])
    while dq:
        S = dq.popleft()
        i = ids[S]
        if S & acc:
            dacc.add(i)
        labs = defaultdict(set)
        for x in S:
            for lab, ys in step[x].items():
                labs[lab] |= ys
        for lab, ys in labs.items():
            T = closure(ys)
            if T not in ids:
                ids[T] = len(ids)
                dq.append(T)
            dtrans[(i, lab)] = ids[T]
    return len(ids), 0, dacc, dtrans


def minimize(n, start, acc, dtrans):
    # remove states that cannot reach acceptance
    rev = defaultdict(set)
    for (a, lab), b in dtrans.items():
        rev[b].add(a)
    live = set(acc)
    st = list(acc)
    while st:
        x = st.pop()
        for y in rev[x]:
            if y not in live:
                live.add(y)
                st.append(y)
    if start not in live:
        return 1, 0, set(), {}
    labels = sorted({lab for (a, lab) in dtrans})
    part = {}
    for s in live:
        part[s] = 1 if s in acc else 0
    while True:
        sig = {}
        for s in live:
            sig[s] = (part[s], tuple(part.get(dtrans.get((s, lab)), -1) if dtrans.get((s, lab)) in live else -1 for lab in labels))
        classes = {}
        newp = {}
        for s in sorted(live):
            newp[s] = classes.setdefault(sig[s], len(classes))
        if len(classes) == len(set(part.values())):
            part = newp
            break
        part = newp
    # canonical numbering: BFS from start with sorted labels
    cls_trans = {}
    for (a, lab), b in dtrans.items():
        if a in live and b in live:
            cls_trans[(part[a], lab)] = part[b]
    order = {part[start]: 0}
    dq = deque([part[start]])
    while dq:
        c = dq.popleft()
        for lab in labels:
            t = cls_trans.get((c, lab))
            if t is not None and t not in order:
                order[t] = len(order)
                dq.append(t)
    canon = {}
    for (c, lab), t in cls_trans.items():
        if c in order and t in order:
            canon[(order[c], lab)] = order[t]
    cacc = {order[part[s]] for s in acc if s in live and part[s] in order}
    return len(order), 0, cacc, canon


def canonical(db, prov, f, builder=None):
    b = builder or Builder(db, prov)
    n, st, acc, tr = b.nfa_of(f)
    d = determinize(n, st, acc, tr)
    m = minimize(*d)
    n2, s2, acc2, tr2 = m
    return {"states": n2, "accept": sorted(acc2), "trans": sorted([a, lab, t] for (a, lab), t in tr2.items())}


def distinguishing_word(A, B):
    """shortest word accepted by exactly one of two canonical DFAs (or None if equivalent)"""
    ta = {(a, lab): t for a, lab, t in A["trans"]}
    tb = {(a, lab): t for a, lab, t in B["trans"]}
    labels = sorted({lab for _, lab, _ in A["trans"]} | {lab for _, lab, _ in B["trans"]})
    accA, accB = set(A["accept"]), set(B["accept"])
    start = (0 if A["states"] else None, 0 if B["states"] else None)
    dq = deque([(start, [])])
    seen = {start}
    while dq:
        (x, y), w = dq.popleft()
        if (x in accA) != (y in accB):
            return w, "reference" if x in accA else "current"
        for lab in labels:
            nx = ta.get((x, lab)) if x is not None else None
            ny = tb.get((y, lab)) if y is not None else None
            if nx is None and ny is None:
                continue
            if (nx, ny) not in seen:
                seen.add((nx, ny))
                dq.append(((nx, ny), w + [lab]))
    return None


def first_tokens(dfas, name, seen=None):
    """FIRST token set of a production (through nonterminals and lists), and nullability."""
    seen = seen or set()
    if name in seen or name not in dfas:
        return set(), False
    seen = seen | {name}
    A = dfas[name]
    out = set()
    nullable = 0 in set(A["accept"])
    # states reachable from 0 by nullable symbols only
    reach = {0}
    st = [0]
    trans = defaultdict(list)
    for a, lab, t in A["trans"]:
        trans[a].append((lab, t))
    while st:
        x = st.pop()
        for lab, t in trans[x]:
            if lab.startswith("tok:"):
                out.add(lab[4:])
            elif lab.startswith("nt:"):
                fs, nl = first_tokens(dfas, lab[3:], seen)
                out |= fs
                if nl and t not in reach:
                    reach.add(t)
                    st.append(t)
            elif lab.startswith("list|"):
                z = lab.split("|")[1]
                fs, nl = first_tokens(dfas, z, seen)
                out |= fs
                if t not in reach:     # a list may be empty
                    reach.add(t)
                    st.append(t)
            elif lab == "ANY":
                out.add("ANY")
        if x in set(A["accept"]):
            nullable = True
    return out, nullable
