"""C17 — package discovery finds every package resolution will ask for."""
from cfg import CFG
from prov import narrow
from pat import *
from facts import Operand

EXPLANATION = ("type-directed completeness of the package visitor: the set of AST positions from which a PackagePath/PackageName is "
               "reachable is computed from the ADT definitions of wac-parser, and every such variant payload / field must be projected "
               "by the visitor; no short-circuiting iterator adaptor may skip children; every AST origin whose name reaches "
               "resolve_package(_path) in the resolver also reaches the visitor callback; callback arguments (name, version, span) "
               "come from one node; the own-package exclusion compares package *names* only, in discovery and in resolution alike. "
               "Necessary conditions; equality of resolution results for supersets is not decided")

VIS = "wac_resolver::visitor::PackageVisitor::"
AST = "wac_parser::ast::"
LEAVES = (AST + "import::PackagePath", AST + "import::PackageName")
SHORT_CIRCUIT = ("::map_while", "::take_while", "::skip_while", "::take", "::skip", "::step_by", "::find", "::find_map", "::position",
                 "::nth", "::last", "::next_back", "::rev", "::any")


def package_carriers(db):
    """AST ADTs from which a PackagePath / PackageName is reachable through fields."""
    adts = {k: v for k, v in db.adts.items() if k.startswith(AST)}
    P = set(x for x in LEAVES if x in adts)
    changed = True
    while changed:
        changed = False
        for k, a in adts.items():
            if k in P:
                continue
            for v in a["variants"]:
                for f in v["fields"]:
                    if any(m in P for m in f["adts"]):
                        P.add(k)
                        changed = True
    return P, adts


def run(ctx):
    db, prov = ctx.db, ctx.prov
    P, adts = package_carriers(db)
    ctx.ob("R17.1", "anchor", len(P) >= 15 and all(x in P for x in LEAVES), "AST types that can contain a package reference: %d" % len(P), nontrivial=False)
    vis = [f for f in db.fns.values() if f.id.startswith(VIS)]
    ctx.ob("R17.1", "visitor-bodies", len(vis) >= 8, "visitor bodies: %d" % len(vis), nontrivial=False)
    read = set()
    for f in vis:
        ctx.touch(f)
        for s in f.stmts():
            for pl in [s.lhs, s.rv.place] + [o.place for o in s.rv.ops]:
                if pl is not None:
                    read |= set(pl.fields())
        for t in f.calls():
            for a in t.args:
                if a.place is not None:
                    read |= set(a.place.fields())
    # which carriers does the visitor have to walk?  Those reachable from Document
    root = AST + "Document"
    reach = set()
    work = [root]
    while work:
        k = work.pop()
        if k in reach or k not in adts:
            continue
        reach.add(k)
        for v in adts[k]["variants"]:
            for f in v["fields"]:
                for m in f["adts"]:
                    if m in P:
                        work.append(m)
    n = 0
    for k in sorted(reach & P):
        if k in LEAVES:
            continue
        a = adts[k]
        for v in a["variants"]:
            for f in v["fields"]:
                if not any(m in P for m in f["adts"]):
                    continue
                n += 1
                label = "%s%s.%s" % (k.split("::")[-1], ("::" + v["name"]) if a["kind"] == "enum" else "", f["name"])
                ok = (f["name"], k, v["name"]) in read
                ctx.ob("R17.1", "position|" + label, ok,
                       "the visitor descends into this position (it can contain a package reference)" if ok else
                       "`%s` can contain a package reference but the visitor never looks at it" % label, site=a.get("span", ""))
    ctx.floor("R17.1", 20)
    # no short-circuiting adaptors over child lists
    for f in vis:
        for t in f.calls():
            p = t.path or ""
            if p.endswith(SHORT_CIRCUIT) and "iter" in p:
                ctx.ob("R17.1", "short-circuit|%s|%s" % (f.id.rsplit("::", 1)[1], p.rsplit("::", 1)[1]), False,
                       "`%s` over a child list stops at the first element that does not match: later children are never visited" % p.rsplit("::", 1)[1],
                       site="%s in %s" % (t.span, f.id))
    # explicit loops over child lists must not be left early except through the callback protocol (return false / Err):
    # a `break`/`continue` to the loop exit that is not a return is reported
    for f in vis:
        if "{closure" in f.id:
            continue
        check_no_break(ctx, f)

    check_stop_only_on_callback(ctx, vis)
    check_nested_depth(ctx)
    check_origins(ctx, vis)
    check_callback_args(ctx, vis)
    check_self_package(ctx, vis)


def check_stop_only_on_callback(ctx, vis):
    """R17.1: the visitor methods return `false` to stop the whole walk.  A `false` may only be produced where the callback
    (or a nested visitor method) returned `false`; a position that merely contains no package reference (a local world
    name, a type) must answer `true`, or every package referenced later in the document goes unreported."""
    db, prov = ctx.db, ctx.prov
    n = 0
    for f in vis:
        if "{closure" in f.id or f.local_ty(0) != "bool":
            continue
        cfg = CFG(f)
        # false edges of tests of a callback / visitor-method result
        stops = set()
        for t in f.calls():
            is_cb = t.callee.get("path") == "<indirect>" or (t.declared or "").endswith(("FnMut::call_mut", "FnMut::call", "FnOnce::call_once")) or (t.path or "").startswith(VIS)
            if not is_cb or t.target is None:
                continue
            for b in f.blocks:
                if b.term.k == "switch" and any(x is t for _, x in prov.slice(f, Operand(b.term.j["discr"])).calls):
                    tt, ft = true_false_targets(b.term)
                    stops |= set(ft) | set(tt)      # either polarity: the result itself decides (`!cb(..)` / `cb(..)`)
        for st in f.stmts():
            v = st.rv.ops[0].const_value() if st.rv.k == "use" and st.rv.ops else None
            if st.lhs.local == 0 and not st.lhs.proj and v == ("bool", False):
                n += 1
                ok = any(cfg.dominates(x, st.bb) for x in stops)
                ctx.ob("R17.1", "stop-only-on-callback|%s" % f.id.rsplit("::", 1)[1], ok,
                       "`false` (stop) is returned only where the callback asked to stop" if ok else
                       "`%s` answers `false` (stop the walk) on a path that does not depend on the callback: a position without a package reference ends discovery, later references are never reported"
                       % f.id.rsplit("::", 1)[1], site="%s in %s" % (st.span, f.id))
    ctx.ob("R17.1", "stop-sites", True, "constant `false` results in visitor methods: %d" % n, nontrivial=False)


def check_nested_depth(ctx):
    """R17.1 `nested-any-depth`: a parenthesised expression can nest to any depth, so the visitor's handling of
    `PrimaryExpr::Nested` recurses into `expr` (or loops): a single unwrapping misses `((new a:b {}))`."""
    db, prov = ctx.db, ctx.prov
    f = db.fns.get(VIS + "expr")
    if f is None:
        ctx.lost("R17.1", VIS + "expr")
        return
    cfg = CFG(f)
    import tables
    ok = False
    seen = False
    for bidx, adt, arms, other in tables.switch_arms(db, prov, f):
        if not adt.endswith("PrimaryExpr"):
            continue
        for v, tg in arms:
            if v != "Nested":
                continue
            seen = True
            mine = cfg.reach_forward(tg)
            others = set()
            for v2, tg2 in arms:
                if tg2 != tg:
                    others |= cfg.reach_forward(tg2)
            if other is not None and other != tg:
                others |= cfg.reach_forward(other)       # (`if let Nested(..)`: the fall-through is not part of the arm)
            region = mine - others
            rec = any(cfg.blocks[b].term.k == "call" and cfg.blocks[b].term.path == f.id for b in region)
            loop = any(cfg.reaches(b, bidx) for b in region)      # the arm leads back to the dispatch (`while let` / `loop`)
            ok = ok or rec or loop
    ctx.ob("R17.1", "nested-any-depth", seen and ok,
           "the Nested arm recurses (or loops) into the inner expression" if seen and ok else
           "parentheses are unwrapped a fixed number of times (%s): a `new` inside deeper parentheses is never reported although resolution asks for its package" % ("no Nested arm found" if not seen else "no recursion or loop in the Nested arm"),
           site=f.span)


def check_no_break(ctx, f):
    """in a for-loop over children, the only edges leaving the loop are: iterator exhausted, or a path to `return`."""
    cfg = CFG(f)
    for t in f.calls():
        if not ((t.path or "").endswith("::next") and cfg.reaches(t.bb, t.bb) and t.target is not None):
            continue
        sw = cfg.blocks[t.target].term
        if sw.k != "switch":
            continue
        none_t = [tg for v, tg in sw.j["targets"] if v == 0]
        some_t = [tg for v, tg in sw.j["targets"] if v == 1]
        if not none_t or not some_t:
            continue
        body = {x for x in cfg.reach_from(some_t[0], cut={t.bb}) if cfg.reaches(x, t.bb)}
        after = cfg.reach_from(none_t[0])
        # blocks reachable from the body without passing next() that are neither in the body nor lead only to return
        for b in body:
            for s in cfg.succ[b]:
                if s not in body and s != t.bb:
                    # leaving the loop: must not rejoin the code after the loop unless that code is just `return`
                    if s in after and f.id.endswith("::visit"):
                        continue  # `visit` stops the whole walk when the callback asks to (documented protocol)
                    rejoin = s in after and any(cfg.blocks[x].term.k == "call" for x in cfg.reach_from(s))
                    if rejoin and (f.id, b) not in ctx.__dict__.setdefault("_seen_break", set()):
                        ctx._seen_break.add((f.id, b))
                        ctx.ob("R17.1", "early-exit|" + f.id.rsplit("::", 1)[1], False,
                               "a loop over children is left early and execution continues after it: the remaining children are skipped",
                               site="%s in %s" % (cfg.blocks[b].term.span, f.id))


def pkg_fields(db, fields):
    """(owner, variant, field) projections whose field type is PackagePath / PackageName (or Option/Box of them)."""
    out = set()
    for (n, o, v) in fields:
        a = db.adts.get(o)
        if not a or not o.startswith(AST):
            continue
        for var in a["variants"]:
            if var["name"] != v and a["kind"] == "enum":
                continue
            for f in var["fields"]:
                if f["name"] == n and any(m in LEAVES for m in f["adts"]):
                    out.add((o, v, n))
    return out


def check_origins(ctx, vis):
    """R17.2 resolver origins ⊆ visitor origins."""
    db, prov = ctx.db, ctx.prov
    res = set()
    sites = {}
    for f in db.fns.values():
        if not f.id.startswith("wac_parser::resolution::AstResolver::"):
            continue
        for t in f.calls():
            if t.path in ("wac_parser::resolution::AstResolver::resolve_package_path", "wac_parser::resolution::AstResolver::resolve_package"):
                if f.id.endswith("::resolve_package_path"):
                    continue
                ctx.touch(f)
                idx = 2
                sl = prov.slice(f, t.args[idx])
                for k in pkg_fields(db, sl.fields):
                    res.add(k)
                    sites.setdefault(k, "%s in %s" % (t.span, f.id))
    visited = set()
    for f in vis:
        for t in f.calls():
            if t.callee.get("path") == "<indirect>" or (t.declared or "").endswith(("FnMut::call_mut", "Fn::call", "FnOnce::call_once")):
                for a in t.args:
                    sl = prov.slice(f, a)
                    visited |= pkg_fields(db, sl.fields)
    ctx.ob("R17.2", "anchor", len(res) >= 5 and len(visited) >= 5, "resolver origins=%d visitor origins=%d" % (len(res), len(visited)), nontrivial=False)
    for k in sorted(res):
        label = "%s::%s.%s" % (k[0].split("::")[-1], k[1], k[2])
        ctx.ob("R17.2", "origin|" + label, k in visited,
               "package references at this position reach both the resolver and the visitor callback" if k in visited else
               "resolution requests packages named at `%s` but discovery never reports them" % label, site=sites[k])


def check_callback_args(ctx, vis):
    """R17.3: (name, version, span) of one node."""
    db, prov = ctx.db, ctx.prov
    n = 0
    for f in vis:
        for t in f.calls():
            if not (t.callee.get("path") == "<indirect>" or (t.declared or "").endswith(("FnMut::call_mut",))):
                continue
            # args: (&mut closure, (name, version, span)) as a tuple operand
            sl_all = [prov.slice(f, a) for a in t.args[1:]]
            d = prov.defs(f)
            tup = None
            for a in t.args[1:]:
                if a.place is not None and not a.place.proj:
                    for kind, site in d.defs.get(a.place.local, ()):
                        if kind == "stmt" and site.rv.k == "agg" and site.rv.j.get("tuple") and len(site.rv.ops) == 3:
                            tup = site
            if tup is None:
                continue
            n += 1
            name_s, ver_s, span_s = (prov.slice(f, o) for o in tup.rv.ops)
            ok_name = name_s.has_field("name") and not name_s.has_field("string")
            ok_ver = ver_s.has_field("version")
            ok_span = span_s.has_field("span") or span_s.has_call("package_name_span")
            base = {l for l in narrow(prov, f, tup.rv.ops[0]).locals} & {l for l in narrow(prov, f, tup.rv.ops[1]).locals}
            # … of the same node: the AST path that leads to `.name` is the path that leads to `.version`
            pn = {(nm, o) for nm, o, v in narrow(prov, f, tup.rv.ops[0]).fields if o.startswith("wac_parser::ast") and nm != "name"}
            pv = {(nm, o) for nm, o, v in narrow(prov, f, tup.rv.ops[1]).fields if o.startswith("wac_parser::ast") and nm != "version"}
            if pn != pv:
                base = set()
            ok = ok_name and ok_ver and ok_span and bool(base)
            ctx.ob("R17.3", "callback|%s@%d" % (f.id.rsplit("::", 1)[1], n), ok,
                   "callback receives (x.name, x.version, span of x) of the same node" if ok else
                   "callback arguments are not (name, version, span) of one node: name=%s version=%s span=%s same-node=%s" % (ok_name, ok_ver, ok_span, bool(base)),
                   site="%s in %s" % (t.span, f.id))
    ctx.floor("R17.3", 6)


def cmp_sites(f):
    out = []
    for t in f.calls():
        if (t.declared or "").endswith(("PartialEq::eq", "PartialEq::ne")):
            out.append((t.bb, t.args[0], t.args[1], t))
    for s in f.stmts():
        if s.rv.k == "bin" and s.rv.op in ("Eq", "Ne"):
            out.append((s.bb, s.rv.ops[0], s.rv.ops[1], s))
    return out


def check_self_package(ctx, vis):
    """R17.3/R17.4: own-package tests compare names only — visitor::expr, packages() callback, resolve_package_path."""
    db, prov = ctx.db, ctx.prov
    # (a) visitor: e.package.name == this, with `this` = doc.directive.package.name
    ex = db.fn(VIS + "expr")
    errs = [s for s in ex.stmts() if s.rv.k == "agg" and s.rv.j.get("variant") == "CannotInstantiateSelf"]
    ok = False
    cfg = CFG(ex)
    for bb, a, b, site in cmp_sites(ex):
        sa, sb = prov.slice(ex, a), prov.slice(ex, b)
        names = (sa.has_field("name", "import::PackageName") and any(i == 2 for fid, i in sb.params)) or \
                (sb.has_field("name", "import::PackageName") and any(i == 2 for fid, i in sa.params))
        if names and errs and any(cfg.dominates(bb, e.bb) for e in errs):
            ok = True
    ctx.ob("R17.3", "self-instantiation|expr", ok, "`new` of a package whose *name* equals the document's package name is rejected" if ok else
           "the self-instantiation test does not compare the instantiated package's name with the document's package name", site=ex.span)
    vf = db.fn(VIS + "visit")
    for t in vf.calls():
        if t.path == VIS + "expr":
            sl = prov.slice(vf, t.args[1])
            okn = sl.has_field("name", "import::PackageName") and sl.has_field("package", "ast::PackageDirective") and not sl.has_field("string")
            ctx.ob("R17.3", "self-instantiation|this@%d" % ordinal(vf, t), okn,
                   "`this` is the document's package name (without version)" if okn else
                   "`this` is not `directive.package.name` (e.g. the versioned string): a versioned document never matches its own package", site="%s in %s" % (t.span, vf.id))
    # (b) packages(): the skip test
    pk = [f for f in db.fns.values() if f.id.startswith("wac_resolver::packages::{closure")]
    okp = False
    extra = []
    for f in pk:
        ctx.touch(f)
        for bb, a, b, site in cmp_sites(f):
            sa, sb = prov.slice(f, a), prov.slice(f, b)
            fl = sa.field_names() | sb.field_names()
            if "name" in fl and "package" in fl:
                okp = True
            if "version" in fl or "string" in fl:
                extra.append(sorted(fl))
    ctx.ob("R17.3", "self-skip|packages", okp and not extra, "discovery skips exactly the references whose name equals the document's package name" if okp and not extra else
           "discovery's own-package test is not a comparison of names only (%s)" % extra)
    # every reference that is not the document's own package is recorded: a return that avoids the insert is only taken on
    # the equal edge of the own-package comparison
    for f in pk:
        if "{closure#0}::{closure" in f.id:
            continue
        cfg = CFG(f)
        ins = [t for t in f.calls() if (t.path or "").endswith("IndexMap::insert")]
        if not ins:
            continue
        own_true = []
        for bb, a, b, site in cmp_sites(f):
            sa, sb = prov.slice(f, a), prov.slice(f, b)
            fl = sa.field_names() | sb.field_names()
            if "name" in fl and "package" in fl and hasattr(site, "target"):
                sw = switch_after(cfg, site)
                if sw is not None:
                    tt, ft = true_false_targets(sw)
                    eq = (site.declared or "").endswith("::eq")
                    own_true += list(tt if eq else ft)
        rets = [b.idx for b in f.blocks if b.term.k == "return" and not b.cleanup]
        okr = bool(own_true) and cfg.must_pass([t.bb for t in ins] + own_true, src=0, dsts=set(rets))
        ctx.ob("R17.3", "record-every-reference", okr,
               "the discovery callback returns without recording a reference only for the document's own package" if okr else
               "the discovery callback can return without recording the (name, version) it was given on a path other than the own-package skip "
               "(e.g. 'name already seen'): a second version of a package that is referenced is never reported", site=f.span)
    # keys carry the version
    okk = any(any((t.path or "").endswith("BorrowedPackageKey::from_name_and_version") for t in f.calls()) for f in pk)
    ctx.ob("R17.3", "key-name-and-version", okk, "discovered packages are keyed by name and version" if okk else "discovered packages are not keyed by (name, version)")
    # (c) resolver: local-path test
    rp = db.fn("wac_parser::resolution::AstResolver::resolve_package_path")
    ctx.touch(rp)
    cfg = CFG(rp)
    local = [t for t in rp.calls() if t.path == "wac_parser::resolution::AstResolver::resolve_local_path"]
    ctx.ob("R17.4", "anchor", len(local) == 1, "resolve_local_path call sites: %d" % len(local), nontrivial=False)
    for t in local:
        doms = [(bb, a, b) for bb, a, b, site in cmp_sites(rp) if cfg.dominates(bb, t.bb)]
        flds = set()
        for bb, a, b in doms:
            flds |= prov.slice(rp, a).field_names() | prov.slice(rp, b).field_names()
        ok = "name" in flds and "version" not in flds and "string" not in flds and len(doms) == 1
        ctx.ob("R17.4", "local-path-test", ok, "a path is local exactly when its package *name* equals the document's package name (as in discovery)" if ok else
               "the resolver's local-path test differs from discovery's own-package test (fields compared: %s, %d comparisons): resolution can request the document's own package, which discovery never reports" % (sorted(flds), len(doms)),
               site="%s in %s" % (t.span, rp.id))
    # the resolver consumes supplied packages only by (name, version) key
    r = db.fn("wac_parser::resolution::AstResolver::resolve_package")
    ctx.touch(r)
    rm = [t for t in r.calls() if (t.path or "").endswith(("IndexMap::swap_remove", "IndexMap::shift_remove", "IndexMap::get", "IndexMap::remove"))]
    okr = bool(rm) and all(any((x.path or "").endswith("BorrowedPackageKey::from_name_and_version") for _, x in prov.slice(r, t.args[1]).calls) for t in rm)
    ctx.ob("R17.4", "consume-by-key", okr, "supplied packages are looked up by the (name, version) key" if okr else "supplied packages are not looked up by (name, version)")


def ordinal(f, t):
    k = 0
    for c in f.calls():
        if c is t:
            return k
        if c.path == t.path:
            k += 1
    return k
