"""C14 — no input crashes the front end; diagnostics point inside the source.

R14.1 stated-belief panic sites (panic!/unreachable!/todo!/unimplemented!/assert!) reachable from the entry points
R14.2 panic-capable operations (unwrap/expect/index/slice) per pipeline file: no site beyond the reviewed table
R14.3 span construction: integer constants flowing into SourceSpan::new per function
R14.4 input-driven recursion: recursive SCCs reachable from the entry points (depth guards)
"""
import json, os, sys, re
from collections import defaultdict, Counter
from cfg import CFG
import engine
from facts import strip_generics

EXPLANATION = ("panic-site audit over the call graph reachable from Document::parse / Document::resolve / Package::from_bytes / "
               "Resolution::encode / CompositionGraph::encode: every explicit panic macro, every unwrap/expect/index/slice in the "
               "pipeline files, every integer constant flowing into a SourceSpan, and every recursive SCC is compared with a reviewed "
               "table (specs/panic_sites.json); anything beyond the table is a violation. Decides that no *new* panic-capable "
               "construct is reachable and that the tabled ones carry a stated invariant; does not decide the invariants themselves")

ENTRY = [
    "wac_parser::ast::Document::parse",
    "wac_parser::ast::Document::resolve",
    "wac_parser::resolution::Resolution::encode",
    "wac_types::package::Package::from_bytes",
    "wac_graph::graph::CompositionGraph::encode",
    "wac_resolver::packages",
    "wac_types::targets::validate_target",
    "wac_graph::plug::plug",
]
PIPELINE_FILES = [
    "crates/wac-parser/src/lexer.rs", "crates/wac-parser/src/ast.rs", "crates/wac-parser/src/ast/type.rs",
    "crates/wac-parser/src/ast/expr.rs", "crates/wac-parser/src/ast/import.rs", "crates/wac-parser/src/ast/export.rs",
    "crates/wac-parser/src/ast/let.rs", "crates/wac-parser/src/resolution.rs", "crates/wac-types/src/package.rs",
    "crates/wac-types/src/core.rs", "crates/wac-types/src/component.rs", "crates/wac-types/src/aggregator.rs",
    "crates/wac-types/src/checker.rs", "crates/wac-types/src/names.rs", "crates/wac-types/src/targets.rs",
    "crates/wac-graph/src/graph.rs", "crates/wac-graph/src/encoding.rs", "crates/wac-graph/src/plug.rs",
    "crates/wac-resolver/src/visitor.rs", "crates/wac-resolver/src/lib.rs",
]
PANIC_MACROS = ("panic", "unreachable", "todo", "unimplemented", "assert", "assert_eq", "assert_ne", "debug_assert", "debug_assert_eq",
                "debug_assert_ne", "bail", "unreachable_display")
TABLE = os.path.join(engine.VERIF, "specs", "panic_sites.json")


def panic_macro_of(t):
    """(macro name, message) for a diverging call that comes from an explicit panic macro, else None."""
    p = t.path or ""
    if not p.startswith(("core::panicking::", "std::rt::", "core::panicking")):
        return None
    macs = [m.split("::")[-1] for m in t.mac]
    name = None
    for m in macs:   # the backtrace lists the innermost expansion first: keep the outermost user-visible macro
        if m in ("panic", "unreachable", "todo", "unimplemented", "assert", "assert_eq", "assert_ne", "debug_assert", "debug_assert_eq", "debug_assert_ne"):
            name = m
    if name is None:
        if p.endswith(("assert_failed", "assert_failed_inner")):
            name = "assert_eq"
        elif macs:
            name = macs[-1]
        else:
            name = "panic"
    msg = ""
    for a in t.args:
        v = a.const_value()
        if v and v[0] == "str":
            msg = v[1]
    return name, msg


def fmt_message(f, t):
    """best effort: literal pieces of the fmt::Arguments template feeding a panic_fmt call."""
    from fmtdecode import template_text
    try:
        return template_text(f, t)
    except Exception:
        return ""


def site_kind(f, t):
    """classify a call terminator as a panic-capable operation kind."""
    p = t.path or ""
    d = t.declared or ""
    if p.endswith(("::Option::unwrap", "::Result::unwrap")):
        return "unwrap"
    if p.endswith(("::Option::expect", "::Result::expect", "::Result::expect_err", "::Result::unwrap_err")):
        return "expect"
    if d.endswith(("ops::index::Index::index", "ops::index::IndexMut::index_mut")):
        recv = f.local_ty(t.args[0].place.local) if t.args and t.args[0].place is not None else ""
        rt = recv.lstrip("&").replace("mut ", "")
        if rt.startswith("str") or rt.startswith("alloc::string::String"):
            return "str-slice"
        if rt.startswith(("[", "alloc::vec::Vec<")):
            return "slice-index"
        if rt.startswith(("indexmap::", "std::collections::")):
            return "map-index"
        if rt.startswith(("petgraph::",)):
            return "graph-index"
        return "index:" + short_ty(rt)
    if p.endswith(("slice::<impl [T]>::split_at", "str::split_at", "::swap_remove", "Vec::remove", "Vec::insert")) and False:
        return "other"
    return None


def short_ty(t):
    t = re.sub(r"<.*", "", t)
    return "::".join(t.split("::")[-2:])


def definitely_some(prov, f, u):
    """local discharge of `opt.unwrap()`: a forward dataflow over the CFG proves that the Option local is Some at the call
    (assigned `Some(..)`, or refined by is_some()/is_none()/a discriminant test on the path)."""
    from facts import Operand
    if not u.args or u.args[0].place is None or u.args[0].place.proj:
        return False
    d = prov.defs(f)
    # root local: follow plain moves/copies of the operand
    root = u.args[0].place.local
    for _ in range(4):
        ds = [x for x in d.defs.get(root, ()) if x[0] != "mutarg"]
        if len(ds) == 1 and ds[0][0] == "stmt" and ds[0][1].rv.k == "use" and ds[0][1].rv.ops[0].place is not None and not ds[0][1].rv.ops[0].place.proj:
            root = ds[0][1].rv.ops[0].place.local
        else:
            break
    ty = f.local_ty(root)
    if "option::Option<" not in ty:
        return False
    cfg = CFG(f)
    # locals that are refs/copies of root (for is_none(&root))
    alias = {root}
    for s in f.stmts():
        if not s.lhs.proj and s.rv.k in ("ref", "use"):
            src = s.rv.place if s.rv.k == "ref" else s.rv.ops[0].place
            if src is not None and src.local in alias and all(p[0] == "deref" for p in src.proj):
                alias.add(s.lhs.local)
    SOME, NONE, TOP = "S", "N", "T"
    state = {0: TOP}
    work = [0]
    # edge refinements: block -> {succ: state}
    refine = {}
    for b in f.blocks:
        t = b.term
        if t.k == "call" and (t.path or "").endswith(("Option::is_none", "Option::is_some")) and t.args and t.args[0].place is not None and t.args[0].place.local in alias and t.target is not None:
            sw = cfg.blocks[t.target].term
            if sw.k == "switch":
                is_none = t.path.endswith("is_none")
                for v, tg in sw.j["targets"]:
                    if v == 0:
                        refine.setdefault(t.target, {})[tg] = SOME if is_none else NONE
                refine.setdefault(t.target, {})[sw.j["otherwise"]] = NONE if is_none else SOME
        if t.k == "switch":
            op = Operand(t.j["discr"])
            if op.place is not None:
                for kind, site in d.defs.get(op.place.local, ()):
                    if kind == "stmt" and site.rv.k == "discr" and site.rv.place.local in alias and all(p[0] == "deref" for p in site.rv.place.proj):
                        for v, tg in t.j["targets"]:
                            refine.setdefault(b.idx, {})[tg] = SOME if v == 1 else NONE

    def transfer(bidx, st):
        for s in cfg.blocks[bidx].stmts:
            if s.lhs.local == root and not s.lhs.proj:
                if s.rv.k == "agg" and s.rv.j.get("variant") == "Some":
                    st = SOME
                elif s.rv.k == "agg" and s.rv.j.get("variant") == "None":
                    st = NONE
                elif s.rv.k == "use" and s.rv.ops and s.rv.ops[0].place is not None and not s.rv.ops[0].place.proj:
                    # `x = move tmp` where tmp was just built as Some(..) / None
                    ds_ = [site for kind, site in d.defs.get(s.rv.ops[0].place.local, ()) if kind == "stmt"]
                    vs_ = {site.rv.j.get("variant") if site.rv.k == "agg" else None for site in ds_}
                    st = SOME if ds_ and vs_ == {"Some"} else NONE if ds_ and vs_ == {"None"} else TOP
                else:
                    st = TOP
        t = cfg.blocks[bidx].term
        if t.k == "call" and t.dest is not None and t.dest.local == root and not t.dest.proj:
            st = TOP
        if t.k == "call" and any(a.place is not None and a.place.local in alias and a.kind == "move" and a.place.local == root for a in t.args) and t is not u:
            st = TOP
        return st
    out = {}
    seen_iter = 0
    while work and seen_iter < 5000:
        seen_iter += 1
        b = work.pop()
        st = transfer(b, state[b])
        out[b] = st
        for sname in cfg.succ[b]:
            ns = refine.get(b, {}).get(sname, st)
            old = state.get(sname)
            new = ns if old is None else (old if old == ns else TOP)
            if new != old:
                state[sname] = new
                work.append(sname)
    # state at the unwrap: state on entry to its block, after the block's statements
    st = state.get(u.bb)
    if st is None:
        return False
    for s in cfg.blocks[u.bb].stmts:
        if s.lhs.local == root and not s.lhs.proj:
            st = SOME if (s.rv.k == "agg" and s.rv.j.get("variant") == "Some") else TOP
    return st == SOME


def collect(db, reach, prov=None):
    """per-file / per-fn panic-capable sites among reachable bodies."""
    macro_sites = []   # (fn, macro, msg, term)
    op_sites = []      # (fn, kind, term)
    for fid in sorted(reach):
        f = db.fns.get(fid)
        if f is None or f.file not in PIPELINE_FILES and not f.file.startswith("crates/"):
            continue
        if f.from_expansion and "{closure" not in f.id and f.kind != "Closure":
            # derive-generated bodies
            continue
        for b in f.blocks:
            if b.cleanup:
                continue
            t = b.term
            if t.k == "call":
                pm = panic_macro_of(t) if t.target is None else None
                if pm:
                    msg = pm[1]
                    if not msg and prov is not None and t.args:
                        from fmtdecode import arguments_text
                        msg = arguments_text(prov, f, t.args[0])
                    macro_sites.append((f, pm[0], msg, t))
                    continue
                k = site_kind(f, t)
                if k in ("unwrap", "expect") and prov is not None and (t.path or "").endswith(("::Option::unwrap", "::Option::expect")) and definitely_some(prov, f, t):
                    continue   # locally discharged: the Option is provably Some here
                if k:
                    op_sites.append((f, k, t))
            elif t.k == "assert" and t.j.get("msg") == "bounds":
                op_sites.append((f, "array-index", t))
    return macro_sites, op_sites


def reachable(db):
    roots = [e for e in ENTRY if e in db.fns]
    reach = db.reachable(roots)
    return roots, reach


def sccs(db, nodes):
    """Tarjan over local call graph restricted to nodes."""
    index = {}
    low = {}
    onstack = set()
    stack = []
    out = []
    counter = [0]
    adj = {n: [c for c in db.callees(db.fns[n]) if c in nodes] for n in nodes if n in db.fns}
    sys.setrecursionlimit(10000)
    for root in sorted(adj):
        if root in index:
            continue
        work = [(root, iter(adj[root]))]
        index[root] = low[root] = counter[0]
        counter[0] += 1
        stack.append(root)
        onstack.add(root)
        while work:
            v, it = work[-1]
            adv = False
            for w in it:
                if w not in adj:
                    continue
                if w not in index:
                    index[w] = low[w] = counter[0]
                    counter[0] += 1
                    stack.append(w)
                    onstack.add(w)
                    work.append((w, iter(adj[w])))
                    adv = True
                    break
                elif w in onstack:
                    low[v] = min(low[v], index[w])
            if adv:
                continue
            work.pop()
            if work:
                u = work[-1][0]
                low[u] = min(low[u], low[v])
            if low[v] == index[v]:
                comp = []
                while True:
                    w = stack.pop()
                    onstack.discard(w)
                    comp.append(w)
                    if w == v:
                        break
                if len(comp) > 1 or v in adj.get(v, ()):
                    out.append(sorted(comp))
    return out


SPAN_UNALIGNED = set()


def span_consts(ctx):
    """fn id -> sorted list of non-zero integer constants flowing into SourceSpan::new arguments (wac-parser)."""
    db, prov = ctx.db, ctx.prov
    res = {}
    unaligned = set()
    # wrappers: wac-parser functions that return a SourceSpan built from their parameters
    wrappers = set()
    for f in db.fns.values():
        if f.crate == "wac_parser" and f.locals[0].endswith("SourceSpan") and f.arg_count >= 1 \
                and any((t.path or "").endswith("::SourceSpan::new") for t in f.calls()) \
                and any("Range<usize>" in f.locals[i] for i in range(1, f.arg_count + 1)):
            wrappers.add(f.id)
    for f in db.fns.values():
        if f.crate != "wac_parser" or f.from_expansion:
            continue
        for t in f.calls():
            if not ((t.path or "").endswith("::SourceSpan::new") or (t.path in wrappers)):
                continue
            consts = set()
            aware = False
            for a in t.args:
                sl = prov.slice(f, a)
                for k, v in sl.consts:
                    if k == "int" and v != 0:
                        consts.add(v)
                if sl.has_call("::len_utf8") or sl.has_call("::char_indices"):
                    aware = True
                # offset of an ASCII delimiter located with str::find, plus its length 1
                if sl.has_call("::find") and any(k == "char" and v < 0x80 for k, v in sl.consts):
                    aware = True
            res.setdefault(f.id, set()).update(consts)
            if consts and not aware:
                unaligned.add(f.id)
    SPAN_UNALIGNED.clear()
    SPAN_UNALIGNED.update(unaligned)
    return {k: sorted(v) for k, v in res.items()}


def gen_table(ctx):
    db = ctx.db
    roots, reach = reachable(db)
    macro_sites, op_sites = collect(db, reach, ctx.prov)
    mac = defaultdict(lambda: Counter())
    for f, m, msg, t in macro_sites:
        mac[f.id][(m, msg)] += 1
    ops = defaultdict(lambda: defaultdict(Counter))
    for f, k, t in op_sites:
        ops[f.file][f.id][k] += 1
    comps = sccs(db, {n for n in reach if n in db.fns})
    return {
        "macros": {fid: [{"macro": m, "msg": msg, "count": c, "invariant": ""} for (m, msg), c in sorted(cnt.items())] for fid, cnt in sorted(mac.items())},
        "ops": {file: {fid: dict(c) for fid, c in sorted(fns.items())} for file, fns in sorted(ops.items())},
        "span_consts": span_consts(ctx),
        "recursion": [{"scc": c[0], "members": list(c), "status": "new"} for c in comps],
    }


def run(ctx):
    db = ctx.db
    if not os.path.exists(TABLE):
        ctx.lost("R14.1", "specs/panic_sites.json")
        return
    table = json.load(open(TABLE))
    roots, reach = reachable(db)
    for e in ENTRY:
        ctx.ob("R14.1", "entry|" + e, e in db.fns, "entry point present" if e in db.fns else "anchor lost: entry point %s" % e, nontrivial=False)
    macro_sites, op_sites = collect(db, reach, ctx.prov)
    for fid in reach:
        if fid in db.fns:
            ctx.touch(fid)

    # ---- R14.1
    tm = table["macros"]
    cur = defaultdict(Counter)
    first = {}
    # closure ordinals are positional (`{closure#2}`): adding an unrelated closure renumbers them, so sites are keyed by the
    # enclosing function path with the ordinals erased
    def nc(fid):
        return re.sub(r"\{closure#\d+\}", "{closure}", fid)
    tmn = defaultdict(list)
    for fid, es in tm.items():
        tmn[nc(fid)].extend(es)
    for f, m, msg, t in macro_sites:
        cur[nc(f.id)][(m, msg)] += 1
        first.setdefault((nc(f.id), m, msg), t)
    for fid, cnt in sorted(cur.items()):
        allowed = Counter()
        inv = {}
        for e in tmn.get(fid, []):
            allowed[(e["macro"], e["msg"])] += e["count"]
            inv[(e["macro"], e["msg"])] = e.get("invariant", "") or inv.get((e["macro"], e["msg"]), "")
        for (m, msg), c in sorted(cnt.items()):
            t = first[(fid, m, msg)]
            key = "%s|%s!|%s" % (fid, m, msg[:60])
            if m in ("todo", "unimplemented"):
                ctx.ob("R14.1", key, False, "`%s!` reachable from an entry point can never be justified" % m, site="%s in %s" % (t.span, fid))
            elif c <= allowed[(m, msg)]:
                ctx.ob("R14.1", key, True, "tabled stated belief (%d site(s)): %s" % (c, inv.get((m, msg)) or "reviewed"), site="%s in %s" % (t.span, fid))
            else:
                ctx.ob("R14.1", key, False, "%d `%s!(%r)` site(s) reachable from the entry points, %d in the reviewed table" % (c, m, msg[:80], allowed[(m, msg)]),
                       site="%s in %s" % (t.span, fid))
    ctx.floor("R14.1", 30)

    # ---- R14.2: per file and kind, the number of sites may not exceed the reviewed table
    to = table["ops"]
    curf = defaultdict(lambda: defaultdict(Counter))
    firstop = {}
    for f, k, t in op_sites:
        curf[f.file][f.id][k] += 1
        firstop.setdefault((f.file, f.id, k), t)
    for file in sorted(set(curf) | set(to)):
        if file not in PIPELINE_FILES:
            continue
        tab_tot = Counter()
        for fid, c in to.get(file, {}).items():
            tab_tot.update(c)
        cur_tot = Counter()
        for fid, c in curf.get(file, {}).items():
            cur_tot.update(c)
        for k in sorted(set(tab_tot) | set(cur_tot)):
            ok = cur_tot[k] <= tab_tot[k]
            why = "%d `%s` site(s) reachable, %d reviewed" % (cur_tot[k], k, tab_tot[k])
            site = file
            if not ok:
                # name the functions whose count grew
                grown = []
                for fid, c in curf[file].items():
                    if c[k] > to.get(file, {}).get(fid, {}).get(k, 0):
                        t = firstop[(file, fid, k)]
                        grown.append("%s (%s)" % (fid, t.span))
                why += "; new site(s) in: " + "; ".join(grown)
                site = grown[0] if grown else file
            ctx.ob("R14.2", "%s|%s" % (file, k), ok, why, site=site)
    ctx.floor("R14.2", 30)
    total = sum(sum(c.values()) for fns_ in curf.values() for c in fns_.values())
    kinds_seen = {k for fns_ in curf.values() for c in fns_.values() for k in c}
    ctx.ob("R14.2", "enumerator-recall", total >= 250 and {"unwrap", "expect", "map-index", "str-slice", "slice-index", "graph-index"} <= kinds_seen,
           "panic-capable operation sites enumerated: %d of kinds %s (recall floor 250; clippy's restriction lints counted 71 unwrap / 21 expect / 57 indexing sites in the four library crates)" % (total, sorted(kinds_seen)), nontrivial=False)

    # ---- R14.3 span constants
    ts = table["span_consts"]
    cur_s = span_consts(ctx)
    for fid, consts in sorted(cur_s.items()):
        allowed = set(ts.get(fid, []))
        extra = [c for c in consts if c not in allowed]
        if not extra and fid in SPAN_UNALIGNED:
            ctx.ob("R14.3", "span|" + fid, False, "constant byte offsets %s flow into a SourceSpan without being re-aligned to a character (no len_utf8/char_indices in the computation): the span can fall outside the source or inside a multi-byte character" % consts,
                   site=db.fns[fid].span)
            continue
        ctx.ob("R14.3", "span|" + fid, not extra,
               "span offsets/lengths are computed from lexer spans, char offsets and lengths%s" % (" and the reviewed constants %s" % sorted(allowed) if allowed else "") if not extra else
               "integer constant(s) %s flow into a SourceSpan in this function (not a reviewed span form: spans must be derived from lexer spans / char boundaries)" % extra,
               site=db.fns[fid].span)
    ctx.floor("R14.3", 10)

    check_element_guards(ctx, reach)
    check_local_map_index(ctx, reach)
    check_key_agreement(ctx)
    check_asserted_fresh(ctx, reach)
    check_fresh_definition_types(ctx)
    check_decoder_eof(ctx)
    import c12
    c12.lexical(engine.AliasCtx(ctx, {"R12.10": "R14.7"}))
    # the parser's tabled asserts (`!types.is_empty()` …) rest on decisions taken through a Lookahead: a stale lookahead
    # makes them reachable (C12's R12.8 typestate, recorded here as R14.7)
    import c12_grammar
    from c01 import ctx_alias
    c12_grammar.lookahead_freshness(ctx_alias(ctx, "R14.7"), None)
    import c12
    c12.whole_input(engine.AliasCtx(ctx, {"R12.6": "R14.7"}))

    # ---- R14.4 recursion
    comps = sccs(db, {n for n in reach if n in db.fns})
    tabled = {e["scc"]: e for e in table["recursion"]}
    for c in comps:
        # a reviewed SCC is recognised by its members, not by which of them sorts first (a rename / an extracted or merged
        # helper changes the representative)
        e = tabled.get(c[0])
        if e is None:
            cand = [t_ for t_ in table["recursion"] if set(t_.get("members", [t_["scc"]])) & set(c)]
            e = cand[0] if len(cand) == 1 else None
        key = "scc:" + (e["scc"] if e is not None else c[0])
        guarded = has_depth_guard(ctx, c)
        desc = "%d function(s): %s%s" % (len(c), ", ".join("::".join(x.split("::")[-2:]) for x in c[:4]), ", …" if len(c) > 4 else "")
        if guarded:
            ctx.ob("R14.4", key, True, "recursion is bounded by a depth guard (%s)" % desc, site=db.fns[c[0]].span)
        elif e is not None and e["status"] == "dominated":
            ctx.ob("R14.4", key, True, "tabled: " + e["reason"], site=db.fns[c[0]].span)
        else:
            ctx.ob("R14.4", key, False, "unbounded recursion driven by input nesting (%s); deep nesting overflows the stack" % desc, site=db.fns[c[0]].span)
    ctx.ob("R14.4", "count", len(comps) >= 8, "recursive SCCs reachable from the entry points: %d" % len(comps), nontrivial=False)


LOOKUPS = ("contains_key", "get", "get_full", "get_index_of", "get_mut", "contains", "entry", "get_key_value", "remove", "shift_remove", "swap_remove")


def _same_map(prov, f, a, g, b):
    """do operand a (in f) and operand b (in g) designate the same map?  same struct field path, or the same local / parameter"""
    sa, sb = narrow_(prov, f, a), narrow_(prov, g, b)
    fa = {(n, o) for n, o, v in sa.fields if not o.startswith(("core::", "alloc::", "tuple")) and o != "tuple"}
    fb = {(n, o) for n, o, v in sb.fields if not o.startswith(("core::", "alloc::", "tuple")) and o != "tuple"}
    if fa or fb:
        return bool(fa & fb)
    return f is g and bool(sa.locals & sb.locals)


def narrow_(prov, f, op):
    from prov import narrow
    return narrow(prov, f, op)


def check_asserted_fresh(ctx, reach):
    """R14.9: an insert whose displaced value is asserted to be absent (`assert!(prev.is_none())`, `.is_none()` -> panic!) states
    the belief "this key is not in the map yet".  The belief needs a reason the code can show: a lookup of the same map
    (contains_key / get / entry / remove …) that dominates the insert in the function itself, or at every call site when the
    map is a parameter.  An asserted insert with no such lookup anywhere is reachable with a duplicate key from the input
    (e.g. a type declared under the name of a function of the same interface) and panics."""
    from pat import switch_after, true_false_targets
    db, prov = ctx.db, ctx.prov
    callers = db.callers()
    tp = os.path.join(engine.VERIF, "specs", "asserted_fresh.json")
    tabled = {e["key"]: e["reason"] for e in json.load(open(tp))["reviewed"]} if os.path.exists(tp) else {}

    def panics(cfg, b, depth=3):
        x = b
        for _ in range(depth):
            t = cfg.blocks[x].term
            if t.k == "call" and ("panicking" in (t.path or "") or (t.path or "").rsplit("::", 1)[-1].startswith("panic")):
                return True
            su = cfg.succ[x]
            if len(su) != 1:
                return False
            x = su[0]
        return False
    n = 0
    kcount = {}
    for fid in sorted(reach):
        f = db.fns.get(fid)
        if f is None or f.from_expansion or f.file not in PIPELINE_FILES:
            continue
        cfg = None
        done = set()
        for c in f.calls():
            nm = (c.path or "").rsplit("::", 1)[-1]
            if nm not in ("is_none", "is_some") or "Option" not in (c.path or ""):
                continue
            sl = prov.slice(f, c.args[0])
            ins = [x for _, x in sl.calls if (x.path or "").rsplit("::", 1)[-1] in ("insert", "insert_full") and ("Map" in (x.path or "") or "Set" in (x.path or ""))]
            if not ins:
                continue
            cfg = cfg or CFG(f)
            sw = switch_after(cfg, c)
            if sw is None:
                continue
            tt, ft = true_false_targets(sw)
            if not any(panics(cfg, x) for x in (ft if nm == "is_none" else tt)):
                continue
            I = ins[0]
            if id(I) in done:
                continue
            done.add(id(I))
            n += 1
            ctx.touch(f)
            # (a) a lookup of the same map dominating the insert in this function
            local = [l for l in f.calls() if l is not I and (l.path or "").rsplit("::", 1)[-1] in LOOKUPS and ("Map" in (l.path or "") or "Set" in (l.path or ""))
                     and l.bb != I.bb and cfg.reaches(l.bb, I.bb) and _same_map(prov, f, l.args[0], f, I.args[0])]
            ok = bool(local)
            why = "a lookup of the same map (%s) precedes the asserted insert" % (local[0].path.rsplit("::", 1)[-1] if local else "")
            if not ok:
                # (a') … through a local helper that performs the lookup (`self.find_owner(x)` reads `self.owners`)
                mine = {(nn, o) for nn, o, v in narrow_(prov, f, I.args[0]).fields if not o.startswith(("core::", "alloc::"))}
                for h in f.calls():
                    g = db.fns.get(h.path or "")
                    if g is None or g.crate != f.crate or h.bb == I.bb or not cfg.reaches(h.bb, I.bb) or not mine:
                        continue
                    for l in g.calls():
                        if (l.path or "").rsplit("::", 1)[-1] in LOOKUPS and ("Map" in (l.path or "") or "Set" in (l.path or "")):
                            theirs = {(nn, o) for nn, o, v in narrow_(prov, g, l.args[0]).fields if not o.startswith(("core::", "alloc::"))}
                            if mine & theirs:
                                ok, why = True, "a lookup of the same map in the helper %s precedes the asserted insert" % g.id.rsplit("::", 1)[-1]
            if not ok:
                # (b) the map is a parameter: every caller looks the map up before the call
                ps = sorted(i for fid_, i in narrow_(prov, f, I.args[0]).params if fid_ == f.id and 1 <= i <= f.arg_count)
                sites = [(g, t) for g in (db.fns.get(x) for x in callers.get(f.id, ())) if g is not None for t in g.calls() if t.path == f.id]

                def looked_up(g, t, pidx, depth=0):
                    """does g look the map it passes as parameter pidx of call t up before the call — or, when it only forwards its own
                    parameter, do all of g's callers?"""
                    cg = CFG(g)
                    arg = t.args[pidx - 1]
                    pre = [l for l in g.calls() if (l.path or "").rsplit("::", 1)[-1] in LOOKUPS and ("Map" in (l.path or "") or "Set" in (l.path or ""))
                           and cg.reaches(l.bb, t.bb) and _same_map(prov, g, l.args[0], g, arg)]
                    if pre:
                        return True
                    fwd = sorted(i for fid_, i in narrow_(prov, g, arg).params if fid_ == g.id and 1 <= i <= g.arg_count)
                    up = [(h, c) for h in (db.fns.get(x) for x in callers.get(g.id, ())) if h is not None for c in h.calls() if c.path == g.id]
                    if fwd and up and depth < 3 and not narrow_(prov, g, arg).fields - {x for x in narrow_(prov, g, arg).fields if x[1].startswith(("core::", "alloc::"))}:
                        return all(looked_up(h, c, fwd[0], depth + 1) for h, c in up)
                    return False
                if ps and sites:
                    good = sum(1 for g, t in sites if looked_up(g, t, ps[0]))
                    ok = good == len(sites)
                    why = "the map is a parameter and every one of the %d call sites looks the key up in it first" % len(sites) if ok else \
                        "the map is a parameter and %d of %d call sites hand it over without looking the key up" % (len(sites) - good, len(sites))
                else:
                    why = "no lookup of this map precedes the insert"
            if not ok:
                # (c) the key is an id that was created just now (fresh by construction)
                ks = prov.slice(f, I.args[1])
                mk = sorted({(x.path or "").rsplit("::", 1)[-1] for _, x in ks.calls} & {"instantiate", "add_node", "alloc", "add_interface", "add_world", "add_resource", "add_func_type", "add_defined_type", "add_module_type"})
                if mk:
                    ok, why = True, "the key is an id created by %s in this function (fresh by construction)" % "/".join(mk)
            key = "fresh|%s|%s" % (f.id.split("::", 1)[1], "/".join(sorted({nn for nn, o, v in narrow_(prov, f, I.args[0]).fields if not o.startswith(("core::", "alloc::"))})) or "local")
            kcount[key] = kcount.get(key, 0) + 1
            if kcount[key] > 1:
                key += "#%d" % kcount[key]
            if not ok and key in tabled:
                ok, why = True, "reviewed: " + tabled[key]
            ctx.ob("R14.9", key, ok, why if ok else
                   "`insert` asserted to displace nothing, but %s: a key that is already present (reachable from the input) makes the assertion panic" % why,
                   site="%s in %s" % (I.span, f.id))
    ctx.ob("R14.9", "count", n >= 15, "asserted-fresh inserts on the pipeline: %d" % n, nontrivial=False)


def check_fresh_definition_types(ctx):
    """R14.10: `type_statement` maps `DefineTypeError::TypeAlreadyDefined` to a panic ("type should not be already defined"):
    the belief is that every declaration yields a *new* type id.  So every `Type::…` value the declaration resolvers
    (`type_alias`, `*_decl`) build is made from an id allocated in that very function (`Types::add_*`, or `func_type` which
    allocates) — never from the id of the item being aliased, which may already be defined (`import f: func(); type g = f;
    type h = f;`)."""
    db, prov = ctx.db, ctx.prov
    RES = "wac_parser::resolution::AstResolver::"
    n = 0
    for name in ("type_alias", "variant_decl", "record_decl", "flags_decl", "enum_decl"):
        f = db.fns.get(RES + name)
        if f is None:
            ctx.lost("R14.10", RES + name)
            continue
        ctx.touch(f)
        k = 0
        for st in f.stmts():
            if not (st.rv.k == "agg" and (st.rv.j.get("adt") or "").endswith("component::Type") and st.rv.ops):
                continue
            k += 1
            n += 1
            sl = prov.slice(f, st.rv.ops[0])
            alloc = sorted({(c.path or "").rsplit("::", 1)[-1] for _, c in sl.calls if (c.path or "").rsplit("::", 1)[-1].startswith("add_") or (c.path or "") == RES + "func_type"})
            ctx.ob("R14.10", "fresh-type|%s|%s#%d" % (name, st.rv.j.get("variant"), k), bool(alloc),
                   "the declared type is built from a freshly allocated id (%s)" % ", ".join(alloc) if alloc else
                   "%s builds `Type::%s` from an existing id (no allocation on its data flow): a second declaration over the same item hands define_type an already "
                   "defined type and the resolver panics (`type should not be already defined`)" % (name, st.rv.j.get("variant")), site="%s in %s" % (st.span, f.id))
    ctx.ob("R14.10", "count", n >= 6, "declared-type constructions checked: %d" % n, nontrivial=False)


def check_decoder_eof(ctx):
    """R14.9 `whole-input`: Package::from_bytes owns the complete byte string, so it calls the streaming parser with
    `eof = true`; the `Chunk::NeedMoreData => panic!("all data should be present")` belief holds only then (with a computed
    flag a truncated component asks for more data and panics instead of being reported as malformed)."""
    db, prov = ctx.db, ctx.prov
    n = 0
    for f in db.fns.values():
        if f.crate != "wac_types" or f.from_expansion:
            continue
        for t in f.calls():
            if (t.path or "").endswith("wasmparser::parser::Parser::parse") or ((t.path or "").endswith("Parser::parse") and "wasmparser" in (t.path or "")):
                n += 1
                v = prov.const_of(f, t.args[2]) if len(t.args) > 2 else None
                ctx.ob("R14.9", "whole-input|%s" % f.id.rsplit("::", 1)[-1], v == ("bool", True),
                       "the streaming parser is told that the input is complete (eof = true)" if v == ("bool", True) else
                       "Parser::parse is called with a computed `eof` flag: on truncated input it answers NeedMoreData, which the decoder treats as impossible (panic)",
                       site="%s in %s" % (t.span, f.id))
    ctx.ob("R14.9", "whole-input-sites", n >= 1, "streaming parse calls: %d" % n, nontrivial=False)


def check_key_agreement(ctx):
    """R14.8: writer/reader key agreement for the encoder's name-keyed scope maps.  `Scope::resources` and
    `Scope::instances` are read with the panicking `Index` operator under a key taken from the type model
    (`Resource::name`, `Interface::id`); every insert into the same map must be keyed by the same model field, or a
    reader misses and `encode` panics with "no entry found for key"."""
    from prov import narrow
    db, prov = ctx.db, ctx.prov
    R, W = defaultdict(list), defaultdict(list)
    for f in db.fns.values():
        if f.crate != "wac_graph" or f.from_expansion:
            continue
        for t in f.calls():
            p = t.path or ""
            if not ("IndexMap" in p or "HashMap" in p):
                continue
            nm = p.rsplit("::", 1)[-1]
            if nm not in ("index", "insert", "entry"):
                continue
            recv = narrow(prov, f, t.args[0])
            mf = sorted(n for n, o, v in recv.fields if o == "wac_graph::encoding::Scope")
            if len(mf) != 1:
                continue
            ks = prov.slice(f, t.args[1])
            sig = {"%s.%s" % (o.split("::")[-1], n) for n, o, v in ks.fields if o.startswith("wac_types::component::") and n not in ("0", "1")}
            (R if nm == "index" else W)[mf[0]].append((f, t, sig))
    n = 0
    for m in sorted(R):
        ctx_fields = set.intersection(*[sig for _, _, sig in R[m]]) if R[m] else set()
        if not ctx_fields:
            ctx.ob("R14.8", "key|%s|readers" % m, False, "the indexing readers of Scope::%s share no model field in their keys: %s" % (m, [sorted(s_) for _, _, s_ in R[m]]))
            continue
        for f, t, sig in W[m]:
            n += 1
            ctx.touch(f)
            ok = ctx_fields <= sig
            ctx.ob("R14.8", "key|%s|%s" % (m, f.id.rsplit("::", 1)[-1]), ok,
                   "inserted under the key the indexing readers use (%s)" % ", ".join(sorted(ctx_fields)) if ok else
                   "Scope::%s is indexed (panicking `[]`) by %s in %s, but this insert is keyed by %s: when the two names differ the reader finds no entry and encode panics"
                   % (m, ", ".join(sorted(ctx_fields)), ", ".join(sorted({g.id.rsplit("::", 1)[-1] for g, _, _ in R[m]})), sorted(sig) or "a value not taken from the type model"),
                   site="%s in %s" % (t.span, f.id))
    # the panicking readers themselves: `map[key]` on a scope map is safe only if the function established that the key is in
    # *this* scope (a contains_key / get on the same map that reaches the index); a resource that lives in an enclosing scope, or
    # is reached through an alias, is not
    for m in sorted(R):
        if m != "resources":
            continue     # Scope::instances is filled by import_deps, which the callers run for every interface they alias from (C01 R01.2 / C05 R05.6)
        for f, t, sig in R[m]:
            cfg = CFG(f)
            guard = [l for l in f.calls() if (l.path or "").rsplit("::", 1)[-1] in ("contains_key", "get", "get_full") and l.bb != t.bb and cfg.reaches(l.bb, t.bb)
                     and m in {nn for nn, o, v in narrow(prov, f, l.args[0]).fields if o == "wac_graph::encoding::Scope"}]
            keyed = [l for l in guard if prov.slice(f, l.args[1]).locals & prov.slice(f, t.args[1]).locals]
            ctx.ob("R14.8", "index-guarded|%s|%s" % (m, f.id.rsplit("::", 1)[-1]), bool(keyed),
                   "the indexed key is looked up in the same scope map first" if keyed else
                   "Scope::%s is indexed with `[]` under a key that is never tested for presence in the current scope: a valid component whose item lives in an enclosing scope "
                   "(or is only reachable through an alias) makes encode panic with `no entry found for key`" % m, site="%s in %s" % (t.span, f.id))
    # non-panicking readers of Scope::instances ("is this interface already imported here?") ask under the writers' key too:
    # a lookup under the *import name* misses an interface that was imported under its id and imports it a second time
    for f in db.fns.values():
        if f.crate != "wac_graph" or f.from_expansion:
            continue
        for t in f.calls():
            p_ = t.path or ""
            if p_.rsplit("::", 1)[-1] not in ("get", "contains_key") or not ("IndexMap" in p_ or "HashMap" in p_):
                continue
            if "instances" not in {nn for nn, o, v in narrow(prov, f, t.args[0]).fields if o == "wac_graph::encoding::Scope"}:
                continue
            ks = prov.slice(f, t.args[1])
            okk = ks.has_field("id", "component::Interface")
            ctx.ob("R14.8", "lookup-key|instances|%s" % f.id.rsplit("::", 1)[-1], okk,
                   "Scope::instances is consulted under the interface id it is filled under" if okk else
                   "Scope::instances is filled under Interface::id but consulted here under another string (e.g. the import name): an interface already imported under its id "
                   "is not found and is imported again (two distinct copies of its resources)", site="%s in %s" % (t.span, f.id))
    ctx.ob("R14.8", "count", n >= 4 and {"resources", "instances"} <= set(R), "name-keyed scope-map inserts checked: %d (maps indexed: %s)" % (n, sorted(R)), nontrivial=False)


def check_element_guards(ctx, reach):
    """R14.5: an unwrap of a positional element access (get_index(k) / first / last) that is guarded by a length test
    must be guarded *sufficiently*: the lengths that pass the guard must all contain the element."""
    from facts import Operand
    from pat import true_false_targets
    db, prov = ctx.db, ctx.prov
    INF = 10 ** 9
    n = 0
    for fid in sorted(reach):
        f = db.fns.get(fid)
        if f is None or f.file not in PIPELINE_FILES:
            continue
        cfg = None
        for u in f.calls():
            if not (u.path or "").endswith(("::Option::unwrap", "::Option::expect")):
                continue
            sl = narrow_calls(prov, f, u.args[0])
            acc = [x for x in sl if (x.path or "").rsplit("::", 1)[-1] in ("get_index", "first", "last", "get_index_mut", "first_mut")]
            if not acc:
                continue
            a = acc[0]
            need = 0
            if a.path.endswith(("get_index", "get_index_mut")) and len(a.args) > 1:
                cv = prov.const_of(f, a.args[1])
                if not cv or cv[0] != "int":
                    continue
                need = cv[1]
            recv_fields = prov.slice(f, a.args[0]).fields
            cfg = cfg or CFG(f)
            # dominating guards on len()/is_empty() of the same collection
            lo, hi = 0, INF
            guarded = False
            for b in f.blocks:
                if b.cleanup or b.term.k != "switch" or not cfg.dominates(b.idx, u.bb) or b.idx == u.bb:
                    continue
                op = Operand(b.term.j["discr"])
                cond = comparison_of(prov, f, op)
                if cond is None:
                    continue
                kind, opname, c, lenop = cond
                if not (prov.slice(f, lenop).fields & recv_fields):
                    continue
                tt, ft = true_false_targets(b.term)
                on_true = any(cfg.dominates(x, u.bb) for x in tt)
                on_false = any(cfg.dominates(x, u.bb) for x in ft)
                if on_true == on_false:
                    continue
                guarded = True
                tlo, thi = {"Eq": (c, c), "Ne": None, "Lt": (0, c - 1), "Le": (0, c), "Gt": (c + 1, INF), "Ge": (c, INF)}[opname] or (None, None)
                if opname == "Ne":
                    # true: len != c  (no single interval); false: len == c
                    if on_false:
                        lo, hi = max(lo, c), min(hi, c)
                    elif c == 0:
                        lo = max(lo, 1)
                    continue
                if on_true:
                    lo, hi = max(lo, tlo), min(hi, thi)
                else:
                    # complement of [tlo, thi] intersected with the current range: keep the part that may contain 0 conservatively
                    if tlo <= lo:
                        lo = max(lo, thi + 1)
                    elif thi >= hi:
                        hi = min(hi, tlo - 1)
            if not guarded:
                continue
            n += 1
            ok = lo > need
            ctx.ob("R14.5", "element-guard|%s|%s" % (f.id, a.path.rsplit("::", 1)[1]), ok,
                   "the unwrap of `%s` is reached only with %d <= len%s" % (a.path.rsplit("::", 1)[1], lo, "" if hi >= INF else " <= %d" % hi) if ok else
                   "the length guard before `%s(..).unwrap()` admits len in [%d, %s]: the element may not exist and the unwrap panics" % (a.path.rsplit("::", 1)[1], lo, "inf" if hi >= INF else hi),
                   site="%s in %s" % (u.span, f.id))
    ctx.ob("R14.5", "count", n >= 1, "length-guarded positional unwraps: %d" % n, nontrivial=False)


def narrow_calls(prov, f, op):
    from prov import narrow
    return [t for _, t in narrow(prov, f, op).calls]


def comparison_of(prov, f, op):
    """if the switch operand is `len() OP const` or `is_empty()`: ('len', OP, const, len-receiver operand)"""
    if op.place is None or op.place.proj:
        return None
    d = prov.defs(f)
    ds = [x for x in d.defs.get(op.place.local, ()) if x[0] != "mutarg"]
    if len(ds) != 1:
        return None
    kind, site = ds[0]
    if kind == "call":
        p = site.path or ""
        if p.endswith("::is_empty"):
            return ("len", "Eq", 0, site.args[0])
        return None
    rv = site.rv
    if rv.k == "un" and rv.op == "Not":
        inner = comparison_of(prov, f, rv.ops[0])
        if inner:
            neg = {"Eq": "Ne", "Ne": "Eq", "Lt": "Ge", "Ge": "Lt", "Gt": "Le", "Le": "Gt"}[inner[1]]
            return (inner[0], neg, inner[2], inner[3])
        return None
    if rv.k == "bin" and rv.op in ("Eq", "Ne", "Lt", "Le", "Gt", "Ge"):
        a, b = rv.ops
        ca, cb = prov.const_of(f, a), prov.const_of(f, b)

        def len_call(o):
            if o.place is None or o.place.proj:
                return None
            dd = [x for x in d.defs.get(o.place.local, ()) if x[0] == "call"]
            for _, t in dd:
                if (t.path or "").endswith("::len"):
                    return t.args[0]
            return None
        if cb and cb[0] == "int" and len_call(a) is not None:
            return ("len", rv.op, cb[1], len_call(a))
        if ca and ca[0] == "int" and len_call(b) is not None:
            flip = {"Lt": "Gt", "Le": "Ge", "Gt": "Lt", "Ge": "Le", "Eq": "Eq", "Ne": "Ne"}[rv.op]
            return ("len", flip, ca[1], len_call(b))
    return None


def check_local_map_index(ctx, reach):
    """R14.6: `map[key]` on a map that is local to the function is dominated by an insertion of the same key
    (for an index inside a closure: at the point where the closure is created)."""
    db, prov = ctx.db, ctx.prov
    n = 0
    for fid in sorted(reach):
        f = db.fns.get(fid)
        if f is None or f.file not in PIPELINE_FILES or "{closure" not in f.id:
            continue
        for t in f.calls():
            if not ((t.declared or "").endswith("ops::index::Index::index") and "HashMap" in (f.local_ty(t.args[0].place.local) if t.args[0].place is not None else "")):
                continue
            # the map is an upvar: find the parent's local
            sites = prov.closure_sites().get(f.id, [])
            for parent, agg in sites:
                cfgp = CFG(parent)
                dpar = prov.defs(parent)
                # captured operands that are (refs to) local HashMaps created in the parent
                for o in agg.rv.ops:
                    if o.place is None:
                        continue
                    root = o.place.local
                    for _ in range(3):
                        ds = [x for x in dpar.defs.get(root, ()) if x[0] == "stmt" and x[1].rv.k == "ref"]
                        if ds:
                            root = ds[0][1].rv.place.local
                        else:
                            break
                    if "HashMap<" not in parent.local_ty(root):
                        continue
                    created = any(k == "call" and (c.path or "").endswith(("HashMap::new", "Default>::default", "HashMap::with_capacity")) for k, c in dpar.defs.get(root, ()) if k == "call")
                    if not created:
                        continue
                    ins = [c for c in parent.calls() if (c.path or "").endswith(("HashMap::insert", "HashMap::entry")) and root in {l for _, l in prov.slice(parent, c.args[0]).locals}]
                    n += 1
                    ok = any(cfgp.dominates(c.bb, agg.bb) for c in ins)
                    ctx.ob("R14.6", "local-map-index|%s" % f.id, ok,
                           "the indexed key was inserted into the local map before the closure that indexes it is created" if ok else
                           "a local map is indexed (`map[key]`, panics when absent) in a closure created before any insertion into it dominates",
                           site="%s in %s" % (t.span, f.id))
    ctx.ob("R14.6", "count", n >= 1, "indexed local maps inside closures: %d" % n, nontrivial=False)


def has_depth_guard(ctx, comp):
    """a counter compared against a constant on the cycle: look for a field/local named *depth*/*nesting*/*level* compared (Gt/Ge/Lt/Le) with an int constant."""
    db = ctx.db
    for fid in comp:
        f = db.fns[fid]
        for s in f.stmts():
            if s.rv.k == "bin" and s.rv.op in ("Gt", "Ge", "Lt", "Le"):
                names = []
                for o in s.rv.ops:
                    if o.place is not None:
                        names += [n for n, _, _ in o.place.fields()]
                        ln = f.local_name(o.place.local)
                        if ln:
                            names.append(ln)
                if any(re.search("depth|nesting|recursion", n) for n in names) and any(o.const is not None for o in s.rv.ops):
                    return True
    return False


if __name__ == "__main__":
    sys.path.insert(0, os.path.dirname(os.path.abspath(__file__)))
    import facts, prov as provmod
    db = facts.DB(engine.ensure_facts())
    ctx = engine.Ctx("C14", "quick", db, provmod.Prov(db))
    print(json.dumps(gen_table(ctx), indent=1))
