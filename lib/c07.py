"""C07 — argument type checking agrees with the component-model subtype relation.

R07.1 comparator field coverage   R07.2 contravariance = argument swap inside invert..revert, iterate expected side
R07.3 memo soundness             R07.4 limits operators       R07.6 check dominates the argument edge (graph.rs)"""
import re
from collections import defaultdict
from cfg import CFG, error_blocks
from prov import narrow
from pat import *
from facts import Operand

EXPLANATION = ("structural rules over the MIR of wac_types::checker: every field of every type the checker compares flows into a "
               "comparison (field coverage from ADT definitions), recursive checks are called with the two sides straight outside and "
               "swapped inside invert()/revert() while iterating the expected side, the memo is written only after a successful "
               "uncached check with the lookup's key order, limits use >= on minima and <= on maxima; plus the use of the check at "
               "argument time. Decides these necessary conditions of the subtype rules, not agreement with the reference validator")

CK = "wac_types::checker::SubtypeChecker::"
CMP_OPS = ("Eq", "Ne", "Lt", "Le", "Gt", "Ge")
NON_COMPARING = ("expected_found", "kind", "invert", "revert", "new")
IGNORE = {
    ("wac_types::component::Interface", "id"): "interface identity is not part of structural subtyping",
    ("wac_types::component::Interface", "uses"): "used-type provenance is not part of structural subtyping",
    ("wac_types::component::World", "id"): "world identity is not part of structural subtyping",
    ("wac_types::component::World", "uses"): "used-type provenance is not part of structural subtyping",
    ("wac_types::component::Resource", "alias"): "resources are resolved to their alias source before comparison",
    ("wac_types::component::DefinedType", "Alias.0"): "aliases are resolved by resolve_value_type before comparison",
    ("wac_types::component::ValueType", "*"): "dispatch enum: payloads are compared by the callee of each arm",
}
SCOPE_OWNERS = ("wac_types::component::FuncType", "wac_types::component::Record", "wac_types::component::Variant",
                "wac_types::component::Enum", "wac_types::component::Flags", "wac_types::component::Interface",
                "wac_types::component::World", "wac_types::core::ModuleType", "wac_types::component::Resource",
                "wac_types::core::CoreExtern", "wac_types::component::DefinedType")


def checker_fns(db):
    return [f for f in db.fns.values() if f.id.startswith(CK)]


def sides(f):
    """param locals of side A / side B for a comparator method: (self, a, at, b, bt) or with a leading extra arg."""
    if "{closure" in f.id:
        return set(), set()
    tys = [f.locals[i] for i in range(1, f.arg_count + 1)]
    # find the `&Types` params: the one before each is the subject
    tpos = [i + 1 for i, t in enumerate(tys) if t.endswith("component::Types")]
    if len(tpos) != 2:
        return set(), set()
    return {tpos[0] - 1, tpos[0]}, {tpos[1] - 1, tpos[1]}


def field_keys(fields):
    out = set()
    for n, o, v in fields:
        ad = o
        out.add((ad, v, n))
    return out


def run(ctx):
    db, prov = ctx.db, ctx.prov
    fns = checker_fns(db)
    ctx.ob("R07.1", "anchor", len(fns) >= 20, "checker bodies found: %d" % len(fns), nontrivial=False)
    compared = defaultdict(set)      # (owner, variant, field) -> set of fn ids where compared
    for f in fns:
        ctx.touch(f)
        ops = []
        for s in f.stmts():
            if s.rv.k == "bin" and s.rv.op in CMP_OPS:
                ops += list(s.rv.ops)
            if s.rv.k == "discr":
                for k in field_keys(s.rv.place.fields()):
                    compared[k].add(f.id)
                sl = prov.slice(f, s.rv.place.local)
                for k in field_keys(sl.fields):
                    compared[k].add(f.id)
        for t in f.calls():
            p = t.path or ""
            d = t.declared or ""
            if d.endswith(("cmp::PartialEq::eq", "cmp::PartialEq::ne", "cmp::PartialOrd::lt", "cmp::PartialOrd::le", "cmp::PartialOrd::gt", "cmp::PartialOrd::ge")) \
                    and not any(m.startswith(("log", "$crate::log")) for m in t.mac):
                ops += t.args[:2]
            elif p.startswith(CK) and p.rsplit("::", 1)[1] not in NON_COMPARING:
                ops += t.args[1:]
            elif p.endswith(("IndexMap::get", "IndexMap::get_full", "IndexMap::contains_key")):
                ops += t.args[:2]
        for o in ops:
            sl = prov.slice(f, o)
            for k in field_keys(sl.fields):
                compared[k].add(f.id)
    # required: every field of every in-scope ADT
    n = 0
    for owner in SCOPE_OWNERS:
        adt = db.adts.get(owner)
        if adt is None:
            ctx.lost("R07.1", owner)
            continue
        multi = adt["kind"] == "enum"
        for v in adt["variants"]:
            for fld in v["fields"]:
                key = (owner, v["name"], fld["name"])
                ign = IGNORE.get((owner, fld["name"])) or IGNORE.get((owner, "%s.%s" % (v["name"], fld["name"])))
                label = "%s%s.%s" % (owner.split("::")[-1], ("::" + v["name"]) if multi else "", fld["name"])
                n += 1
                if ign:
                    ctx.ob("R07.1", "field|" + label, True, "not compared by design: " + ign, nontrivial=False)
                    continue
                hit = compared.get(key)
                ctx.ob("R07.1", "field|" + label, bool(hit),
                       "field flows into a comparison / recursive check in %s" % sorted(x.split("::")[-1] for x in hit)[:3] if hit else
                       "field `%s` is never compared by the subtype checker (omitted comparison: two types differing only here are accepted)" % label,
                       site=adt.get("span", ""))
    ctx.floor("R07.1", 30)

    check_variance(ctx, fns)
    check_memo(ctx)
    check_limits(ctx)
    check_use_site(ctx)
    check_cross_kind(ctx)
    check_ordered_equality(ctx, fns)
    check_async_first(ctx)
    import c10, engine
    c10.run(engine.AliasCtx(ctx, {"R10.2": "R07.8", "R10.3": "R07.8"}))
    # "use at argument time": set_instantiation_argument's verdicts inside the already-passed scan (C06 R06.8)
    import c06
    c06.check_argument_scan(engine.AliasCtx(ctx, {"R06.8": "R07.8"}), [f for f in db.fns.values() if f.crate == "wac_graph"])


def check_variance(ctx, fns):
    """R07.2"""
    db, prov = ctx.db, ctx.prov
    n = 0
    for f in fns:
        A, B = sides(f)
        if not A:
            continue
        cfg = CFG(f)
        inv = [t for t in f.calls() if t.path == CK + "invert"]
        rev = [t for t in f.calls() if t.path == CK + "revert"]
        # explicit pushes of a fixed variance (module exports) do not change which side is which
        for t in f.calls():
            p = t.path or ""
            if not p.startswith(CK) or p.rsplit("::", 1)[1] in NON_COMPARING or len(t.args) < 5:
                continue
            x, xt, y, yt = t.args[-4:]
            sx, sxt, sy, syt = (prov.slice(f, o) for o in (x, xt, y, yt))
            pa = lambda sl: {i for fid, i in sl.params if fid == f.id}

            def side_of(sl, types=False):
                ps = pa(sl)
                a, b = bool(ps & A), bool(ps & B)
                return "A" if a and not b else "B" if b and not a else "AB" if a and b else "?"
            st = (side_of(sxt), side_of(syt))
            n += 1
            key = "%s|%s@%s" % (f.id.split("::")[-1], p.rsplit("::", 1)[1], ordinal(f, t))
            site = "%s in %s" % (t.span, f.id)
            in_region = any(cfg.dominates(i.bb, t.bb) and i.bb != t.bb for i in inv) and not any(cfg.dominates(r.bb, t.bb) for r in rev)
            if st == ("A", "B"):
                ok = not in_region
                why = "sub-check called straight (a-side first) outside invert()/revert()" if ok else "straight call inside the inverted region: imports must be checked contravariantly"
            elif st == ("B", "A"):
                ok = in_region
                why = "sub-check called with swapped sides inside invert()/revert() (contravariant position)" if ok else "swapped call outside the inverted region: covariant position checked in the wrong direction"
                if ok:
                    fields = sy.field_names() | sx.field_names()
                    ok = "imports" in fields and "exports" not in fields
                    why += "; operands come from `imports`: %s" % ok
            else:
                ok = False
                why = "type collections of the two operands are mixed up (%s, %s)" % st
            # value and its type collection must agree
            if ok:
                vx, vy = side_of(sx), side_of(sy)
                if "A" in st[0] and "B" in vx and "A" not in vx or "B" in st[0] and "A" in vx and "B" not in vx:
                    ok = False
                    why = "first operand and its type collection come from different sides"
                if "A" in st[1] and "B" in vy and "A" not in vy or "B" in st[1] and "A" in vy and "B" not in vy:
                    ok = False
                    why = "second operand and its type collection come from different sides"
            # iterate the expected side, look the name up on the provided side
            if ok and (sx.has_call("::get") or sy.has_call("::get")):
                it_ok = sx.has_call("IndexMap::get") and sy.has_call("::next") and not sy.has_call("IndexMap::get")
                if not it_ok:
                    ok = False
                    why = "the loop iterates the provided side and looks names up on the expected side (extra items would be rejected, missing ones accepted)"
                else:
                    why += "; iterates the expected side and looks up the provided side"
            ctx.ob("R07.2", key, ok, why, site=site)
    ctx.floor("R07.2", 15)


def ordinal(f, t):
    k = 0
    for c in f.calls():
        if c is t:
            return k
        if c.path == t.path:
            k += 1
    return k


def check_memo(ctx):
    """R07.3: cache lookup and insert use the same (a, b) order; insert only after a successful uncached check."""
    db, prov = ctx.db, ctx.prov
    f = db.fn(CK + "is_subtype")
    ctx.touch(f)
    cfg = CFG(f)
    A, B = sides(f)
    cache_calls = [t for t in f.calls() if "HashSet::" in (t.path or "") and narrow(prov, f, t.args[0]).has_field("cache", "SubtypeChecker")]
    ins = [t for t in cache_calls if t.path.endswith("::insert")]
    look = [t for t in cache_calls if t.path.endswith(("::contains", "::get"))]
    ctx.ob("R07.3", "anchor", len(ins) == 1 and len(look) >= 1, "memo lookup/insert sites: %d/%d" % (len(look), len(ins)), nontrivial=False)
    d = prov.defs(f)
    for t in cache_calls:
        # the tuple aggregate feeding the key
        sl = prov.slice(f, t.args[1])
        tuples = []
        for fid, l in sl.locals:
            for kind, site in d.defs.get(l, ()):
                if kind == "stmt" and site.rv.k == "agg" and site.rv.j.get("tuple") and len(site.rv.ops) == 2:
                    tuples.append(site)
        ok = bool(tuples)
        why = "memo key is the tuple (a, b) in parameter order"
        for tp in tuples:
            p0 = {i for fid, i in prov.slice(f, tp.rv.ops[0]).params}
            p1 = {i for fid, i in prov.slice(f, tp.rv.ops[1]).params}
            if not (p0 & A and not p0 & B and p1 & B and not p1 & A):
                ok = False
                why = "memo key is not (a, b): first component from params %s, second from %s — a success would be recorded for another pair" % (sorted(p0), sorted(p1))
        ctx.ob("R07.3", "key-order|%s" % t.path.rsplit("::", 1)[1], ok, why, site="%s in %s" % (t.span, f.id))
    for t in ins:
        inner = [c for c in f.calls() if c.path == CK + "is_subtype_"]
        ok = bool(inner) and all(cfg.dominates(c.bb, t.bb) for c in inner)
        # on the Ok edge: dominated by the true target of a switch on Result::is_ok (or discr == Ok)
        okedge = False
        for c in f.calls():
            if (c.path or "").endswith("::Result::is_ok") and c.target is not None and any(x in inner for _, x in prov.slice(f, c.args[0]).calls):
                sw = cfg.blocks[c.target].term
                if sw.k == "switch":
                    tt, ft = true_false_targets(sw)
                    if any(cfg.dominates(x, t.bb) for x in tt) and not any(cfg.dominates(x, t.bb) for x in ft):
                        okedge = True
        ctx.ob("R07.3", "insert-after-ok", ok and okedge,
               "memo insert is dominated by the uncached check and lies on its Ok edge" if ok and okedge else
               "memo is written before the check completed or on a path where it failed: a rejected pair would later be accepted",
               site="%s in %s" % (t.span, f.id))
    # nothing else writes the memo
    writers = set()
    for g in db.fns.values():
        if g.crate != "wac_types":
            continue
        for t in g.calls():
            if "HashSet::" in (t.path or "") and t.path.endswith(("::insert", "::extend", "::remove", "::clear")) and narrow(prov, g, t.args[0]).has_field("cache", "SubtypeChecker"):
                writers.add(g.id)
    ctx.ob("R07.3", "writers", writers == {f.id}, "memo written only by is_subtype: %s" % sorted(writers))
    # verdict code never reads the variance stack except to word messages: kind() results only reach bail!/expected_found
    ctx.floor("R07.3", 4)


def check_limits(ctx):
    """R07.4 on core_extern: a.initial >= b.initial; a.max <= b.max; (None, Some) rejects."""
    db, prov = ctx.db, ctx.prov
    f = db.fn(CK + "core_extern")
    ctx.touch(f)
    A, B = sides(f)
    ge = le = 0
    bad = []
    sites = []
    for s in f.stmts():
        if s.rv.k == "bin" and s.rv.op in ("Ge", "Le", "Gt", "Lt"):
            sites.append((s.rv.op, s.rv.ops[0], s.rv.ops[1]))
    for t in f.calls():
        d = t.declared or ""
        for m, op in (("::ge", "Ge"), ("::le", "Le"), ("::gt", "Gt"), ("::lt", "Lt")):
            if d == "core::cmp::PartialOrd" + m:
                sites.append((op, t.args[0], t.args[1]))

    class _S:
        pass
    for op, o0, o1 in sites:
        s = _S()
        s.rv = _S()
        s.rv.op = op
        s0, s1 = prov.slice(f, o0), prov.slice(f, o1)
        p0 = {i for fid, i in s0.params}
        p1 = {i for fid, i in s1.params}
        f0, f1 = s0.field_names("CoreExtern"), s1.field_names("CoreExtern")
        straight = bool(p0 & A) and not p0 & B and bool(p1 & B) and not p1 & A
        if "initial" in f0 and "initial" in f1:
            if s.rv.op == "Ge" and straight:
                ge += 1
            else:
                bad.append("minimum compared with %s (operands %s)" % (s.rv.op, "straight" if straight else "swapped/mixed"))
        elif "maximum" in f0 and "maximum" in f1:
            if s.rv.op == "Le" and straight:
                le += 1
            else:
                bad.append("maximum compared with %s (operands %s)" % (s.rv.op, "straight" if straight else "swapped/mixed"))
    ctx.ob("R07.4", "minimum", ge >= 2 and not any("minimum" in b for b in bad), "a.initial >= b.initial for tables and memories (%d sites) %s" % (ge, bad), site=f.span)
    ctx.ob("R07.4", "maximum", le >= 2 and not any("maximum" in b for b in bad), "a.maximum <= b.maximum when both exist (%d sites) %s" % (le, bad), site=f.span)
    # (None, Some(_)) must reject: both maxima are matched on their discriminants (or map_or/is_some_and with a false default)
    dis = defaultdict(set)
    for s in f.stmts():
        if s.rv.k == "discr":
            sl = prov.slice(f, s.rv.place.local)
            flds = {n for n, o, v in s.rv.place.fields()} | sl.field_names("CoreExtern")
            ps = {i for fid, i in sl.params}
            if "maximum" in flds:
                if ps & A:
                    dis["A"].add(s.bb)
                if ps & B:
                    dis["B"].add(s.bb)
    alt = 0
    for t in f.calls():
        if (t.path or "").endswith(("Option::map_or", "Option::is_some_and", "Option::is_none_or")):
            if prov.slice(f, t.args[0]).field_names("CoreExtern") & {"maximum"}:
                dv = t.args[1].const_value() if len(t.args) > 1 else None
                if t.path.endswith("map_or") and dv == ("bool", False) or t.path.endswith("is_some_and"):
                    alt += 1
                else:
                    alt -= 100
    ok = (len(dis["A"]) >= 2 and len(dis["B"]) >= 2) or alt >= 2
    ctx.ob("R07.4", "missing-maximum", ok,
           "both maxima are matched case by case (an unbounded item is not accepted where a maximum is expected)" if ok else
           "the offered maximum is not matched case by case: `None` where a maximum is expected would be accepted", site=f.span)


def check_use_site(ctx):
    """R07.6 / R01.4: the Argument edge is added only after is_subtype(argument kind, expected import kind) succeeded
    and after the scan for an already-passed argument."""
    db, prov = ctx.db, ctx.prov
    SG = "petgraph::graph_impl::stable_graph::StableGraph::"
    n = 0
    for f in db.fns.values():
        if f.crate != "wac_graph":
            continue
        for t in f.calls():
            if t.path != SG + "add_edge":
                continue
            if ("wac_graph::graph::Edge", "Argument") not in prov.slice(f, t.args[3]).aggs:
                continue
            n += 1
            ctx.touch(f)
            cfg = CFG(f)
            site = "%s in %s" % (t.span, f.id)
            checks = [c for c in f.calls() if c.path == CK + "is_subtype" and cfg.dominates(c.bb, t.bb)]
            ok = bool(checks)
            why = "no subtype check dominates the argument edge"
            if ok:
                c = checks[0]
                # success edge: the error path (from_residual) must not lead to the add_edge
                errs = error_blocks(f)
                s0 = prov.slice(f, c.args[1])
                s2 = prov.slice(f, c.args[3])
                src_l = narrow(prov, f, t.args[1]).locals
                arg_kind = s0.has_field("item_kind", "graph::Node") and bool(narrow(prov, f, c.args[1]).locals | s0.locals) and bool(s0.locals & src_l)
                exp_kind = s2.has_field("imports", "component::World") and s2.has_call("::get_full") or s2.has_call("IndexMap::get") or s2.has_call("::get_index")
                ok = arg_kind and exp_kind and not s2.has_field("item_kind", "graph::Node")
                why = "is_subtype(kind of the argument node, expected import kind) dominates the edge: argument side=%s expected side=%s" % (arg_kind, exp_kind)
            ctx.ob("R07.6", "check-before-edge|" + f.id, ok, why, site=site)
            # the already-passed scan: a loop over incoming edges comparing the payload with the argument index dominates the edge
            scans = [c for c in f.calls() if (c.path or "").endswith("::edges_directed") and cfg.dominates(c.bb, t.bb)]
            ok2 = False
            for c in scans:
                if prov.const_of(f, c.args[2]) == ("variant", "petgraph::Direction", "Incoming") and narrow(prov, f, c.args[1]).locals & narrow(prov, f, t.args[2]).locals:
                    ok2 = True
            ctx.ob("R07.6", "already-passed-scan|" + f.id, ok2,
                   "the incoming edges of the instantiation are scanned for the same argument index before the edge is added" if ok2 else
                   "no scan of incoming argument edges dominates the new edge: an argument could be passed twice", site=site)
    ctx.ob("R07.6", "count", n >= 1, "Argument add_edge sites: %d" % n, nontrivial=False)


UNORDERED = ("indexmap::map::IndexMap", "indexmap::set::IndexSet", "std::collections::hash::map::HashMap", "std::collections::hash::set::HashSet",
             "hashbrown::")


def contains_unordered(db, ty, depth=4, seen=None):
    """does a value of type `ty` (as printed) contain a collection whose `==` ignores element order?"""
    seen = seen if seen is not None else set()
    # an arena id compares the index, not the contents it designates
    ty = re.sub(r"id_arena::Id<[^<>]*(<[^<>]*>)?[^<>]*>", "Id", ty)
    if any(u in ty for u in UNORDERED):
        return ty
    if depth == 0:
        return None
    for path, a in db.adts.items():
        if not a.get("local") or path in seen:
            continue
        short = path.split("::", 1)[1] if "::" in path else path
        if re.search(r"(^|[^\w:])(%s|%s)($|[^\w:])" % (re.escape(path), re.escape(short)), ty):
            seen.add(path)
            for v in a["variants"]:
                for fl in v["fields"]:
                    r = contains_unordered(db, fl["ty"], depth - 1, seen)
                    if r:
                        return "%s.%s: %s" % (path.split("::")[-1], fl["name"], r)
    return None


def check_async_first(ctx):
    """R07.1 `async-before-success`: in the function rule the `is_async` flags are compared on every path that can end in
    `Ok(())` — the comparison dominates every success exit (moved behind an early success it only runs for pairs that are
    rejected anyway)."""
    from cfg import ok_blocks
    db, prov = ctx.db, ctx.prov
    f = db.fn(CK + "func")
    ctx.touch(f)
    cfg = CFG(f)
    reads = set()
    for st in f.stmts():
        for pl in [st.rv.place] + [o.place for o in st.rv.ops]:
            if pl is not None and any(nm == "is_async" and o.endswith("component::FuncType") for nm, o, v in pl.fields()):
                reads.add(st.bb)
    for t in f.calls():
        for a in t.args:
            if a.place is not None and any(nm == "is_async" and o.endswith("component::FuncType") for nm, o, v in a.place.fields()):
                reads.add(t.bb)
    # (the `a == b` identity shortcut returns before the two function types are even looked up: only verdicts taken after the
    # types were loaded count)
    loads = [t.bb for t in f.calls() if (t.path or "").startswith("wac_types::<component::Types as core::ops::index::Index<component::FuncTypeId")]
    oks = {o for o in ok_blocks(f) if any(cfg.dominates(l, o) for l in loads)}
    good = bool(reads) and bool(oks) and all(cfg.must_pass(sorted(reads), src=0, dsts={o}) for o in oks)
    ctx.ob("R07.1", "async-before-success", good,
           "the async flags are compared on every path to a successful verdict" if good else
           "a successful verdict of the function rule can be reached without comparing `is_async` (the comparison sits behind an early `Ok`): an async function is accepted for a sync import",
           site=f.span)


def check_ordered_equality(ctx, fns):
    """R07.7: records, variants, flags, enums, tuples and parameter lists are *ordered* in the component model, and wac keeps
    them in IndexMap/IndexSet — whose `==` ignores order.  The checker may therefore use `==`/`!=` only on scalars, ids,
    names and core types; a collection-level (or derived struct-level) equality accepts a permutation as equal."""
    db = ctx.db
    n = 0
    for f in fns:
        for t in f.calls():
            d = t.declared or ""
            if not d.endswith(("cmp::PartialEq::eq", "cmp::PartialEq::ne")) or any(m.startswith(("log", "$crate::log")) for m in t.mac):
                continue
            n += 1
            bad = None
            for g in t.gen_args[:2]:
                bad = bad or contains_unordered(db, g)
            ctx.ob("R07.7", "eq|%s|%s" % (f.id.split("::", 1)[1], (t.gen_args[0] if t.gen_args else "?").lstrip("&")), bad is None,
                   "equality on %s (no unordered collection inside)" % (t.gen_args[0] if t.gen_args else "?") if bad is None else
                   "`==` on %s compares an order-insensitive collection (%s): two types whose fields/cases/parameters are the same set in a different order are treated as equal, "
                   "which the component model's subtyping rejects" % (t.gen_args[0], bad), site="%s in %s" % (t.span, f.id))
    ctx.floor("R07.7", 15)


def check_cross_kind(ctx, rule="R07.5"):
    """R07.5: in every `match (a, b)` dispatch of the checker, a comparing callee is reached only through
    same-variant edges: mixed pairs (e.g. own vs borrow) must fall through to the mismatch arm."""
    import tables
    db, prov = ctx.db, ctx.prov
    n = 0
    for f in checker_fns(db):
        if "{closure" in f.id:
            continue
        cfg = CFG(f)
        sw = tables.switch_arms(db, prov, f)
        by_block = {b: (adt, arms) for b, adt, arms, other in sw}
        d = prov.defs(f)

        def discr_place(b):
            t = cfg.blocks[b].term
            op = Operand(t.j["discr"])
            for kind, site in d.defs.get(op.place.local, ()):
                if kind == "stmt" and site.rv.k == "discr":
                    return repr(site.rv.place)
            return None
        for b, (adt, arms) in by_block.items():
            for va, tga in arms:
                # an inner switch on the same ADT but another place, reached on a straight line
                x = tga
                inner = None
                for _ in range(4):
                    if x in by_block and by_block[x][0] == adt and discr_place(x) != discr_place(b):
                        inner = x
                        break
                    su = cfg.succ[x]
                    if len(su) != 1:
                        break
                    x = su[0]
                if inner is None:
                    continue
                for vb, tgb in by_block[inner][1]:
                    region = tables.arm_region(cfg, tgb, set(), limit=8)
                    calls = [cfg.blocks[r].term for r in region if cfg.blocks[r].term.k == "call"]
                    compares = [t for t in calls if (t.path or "").startswith(CK) and t.path.rsplit("::", 1)[1] not in NON_COMPARING]
                    if not compares:
                        continue
                    n += 1
                    ok = va == vb
                    ctx.ob(rule, "pair|%s|%s-%s" % (f.id.rsplit("::", 1)[1], va, vb), ok,
                           "(%s, %s) is compared by %s" % (va, vb, compares[0].path.rsplit("::", 1)[1]) if ok else
                           "the mixed pair (%s, %s) of %s reaches the comparison `%s` instead of the mismatch arm: the two kinds are conflated" % (va, vb, adt.split("::")[-1], compares[0].path.rsplit("::", 1)[1]),
                           site="%s in %s" % (compares[0].span, f.id))
    ctx.ob(rule, "pair-count", n >= 20, "same-variant dispatch pairs checked: %d" % n, nontrivial=False)
