"""C05 — WIT declarations in WAC mean what WIT means (weak structural claim)."""
import re
from cfg import CFG, error_blocks
from prov import narrow
from pat import *
from facts import Operand, strip_generics
import tables, c01
from fmtdecode import arguments_text

EXPLANATION = ("weak structural claim: no declaration construct is dropped or cross-wired. Every field of every AST declaration node is "
               "read by the resolver (coverage from ADT definitions); constructor-correspondence tables are same-name (ast::Type -> "
               "PrimitiveType -> wasm-encoder PrimitiveValType -> wasmparser, DefinedType variant -> TypeEncoder method); resource "
               "method extern-name templates and the FuncKind dispatch; `use` renames keep the original name exactly when `as` is "
               "present; name scopes are pushed/popped in balance and the root scope is the first one; the encoder resets/uses the "
               "use-alias table correctly (C01 R01.2). Equivalence with the reference WIT encoding is NOT decided")

RES = "wac_parser::resolution::"
AST = "wac_parser::ast::"
SKIP_FIELDS = {"docs": "documentation is not part of the type", "span": "position only"}


def run(ctx):
    db, prov = ctx.db, ctx.prov
    coverage(ctx)
    fns = [f for f in db.fns.values() if f.crate in ("wac_parser", "wac_types", "wac_graph") and not f.from_expansion]
    n = tables.check_enum_tables(ctx, "R05.2", fns, only=lambda e1, e2: ("PrimitiveType" in e1 or "PrimitiveValType" in e1 or e1.endswith("type::Type")) and ("Primitive" in e2))
    ctx.ob("R05.2", "primitive-rows", n >= 39, "primitive-type table rows checked: %d" % n, nontrivial=False)
    defined_dispatch(ctx)
    resource_conventions(ctx)
    use_renames(ctx)
    scopes(ctx)
    c01.alias_reset(c01.ctx_alias(ctx, "R05.6"))
    c01.index_capture(c01.ctx_alias(ctx, "R05.6"))
    import cachewriters
    cachewriters.check(ctx, "R05.7")
    include_namespaces(ctx)
    import c08, engine
    a = engine.AliasCtx(ctx, {"R08.10": "R05.6"})
    c08.instance_registration(a)
    c08.resource_alias_names(a)


def include_namespaces(ctx):
    """R05.8 `include`: the included world's imports go to (and are checked for a clash against) the including world's
    *imports*, its exports to the exports — the map iterated, the ExternKind handed to the conflict check, a map handed to it,
    and the map inserted into all name the same namespace in each of the two loops."""
    db, prov = ctx.db, ctx.prov
    f = db.fn(RES + "AstResolver::world_include")
    ctx.touch(f)
    cfg = CFG(f)
    calls = [t for t in f.calls() if (t.path or "").endswith("world_include::replace_name")]
    ctx.ob("R05.8", "anchor", len(calls) == 2, "replace_name call sites in world_include: %d" % len(calls), nontrivial=False)
    seen = set()
    for c in calls:
        h = loop_header_of(cfg, c.bb)
        if h is None:
            ctx.ob("R05.8", "include-loop@%s" % c.span.rsplit(":", 2)[-2], False, "replace_name is not called from an include loop", site=c.span)
            continue
        region = {b for b in cfg.reach_from(h) if cfg.reaches(b, h)}
        nx = [t for t in f.calls() if t.bb in region and (t.path or "").endswith("::next")]
        src = set()
        for t in nx:
            rs = prov.slice(f, t.args[0])
            src |= {n for n, o, v in rs.fields if o.endswith("component::World") and n in ("imports", "exports")}
        dst = set()
        for t in f.calls():
            if t.bb in region and (t.path or "").rsplit("::", 1)[-1] in ("entry", "insert") and "IndexMap" in (t.path or ""):
                dst |= {n for n, o, v in narrow(prov, f, t.args[0]).fields if o.endswith("component::World") and n in ("imports", "exports")}
        kinds = set()
        handed = set()
        for a in c.args:
            sl = prov.slice(f, a)
            kinds |= {v for adt, v in sl.aggs if (adt or "").endswith("component::ExternKind")}
            if a.place is not None:
                handed |= {n for n, o, v in narrow(prov, f, a).fields if o.endswith("component::World") and n in ("imports", "exports")}
        # ExternKind constants are passed as operands: read the constant's variant
        for a in c.args:
            v = a.const_value()
            if v and v[0] in ("int", "bits") and "ExternKind" in str(a.const):
                kinds.add(db.variant_by_discr("wac_types::component::ExternKind", v[1]))
        want = {"imports": "Import", "exports": "Export"}
        key = "/".join(sorted(src)) or "?"
        seen |= src
        ok = len(src) == 1 and dst == src and (not handed or handed == src) and (not kinds or kinds == {want[next(iter(src))]})
        ctx.ob("R05.8", "include-namespace|" + key, ok,
               "included %s are checked against and added to the including world's %s" % (key, key) if ok else
               "include loop over `%s`: inserted into %s, conflict check handed %s with kind %s — a clash is looked up in the wrong namespace (a WIT-valid include is rejected, or a real clash goes unreported)"
               % (key, sorted(dst) or "?", sorted(handed) or "the world", sorted(k for k in kinds if k) or "?"),
               site="%s in %s" % (c.span, f.id))
    ctx.ob("R05.8", "both-namespaces", seen == {"imports", "exports"}, "include loops cover %s" % sorted(seen), nontrivial=False)



def coverage(ctx):
    """R05.1"""
    db, prov = ctx.db, ctx.prov
    res = [f for f in db.fns.values() if f.id.startswith(RES) and not f.from_expansion]
    read = set()
    for f in res:
        ctx.touch(f)
        for s in f.stmts():
            for pl in [s.lhs, s.rv.place] + [o.place for o in s.rv.ops]:
                if pl is not None:
                    read |= set(pl.fields())
        for t in f.calls():
            for a in t.args:
                if a.place is not None:
                    read |= set(a.place.fields())
        for c in db.callees(f, include_closures=False):
            g = db.fns.get(c)
            if g is not None and g.id.startswith(AST) and g.impl_adt and g.impl_adt.startswith(AST) and "printer" not in g.id:
                for s in g.stmts():
                    for pl in [s.lhs, s.rv.place] + [o.place for o in s.rv.ops]:
                        if pl is not None:
                            read |= set(pl.fields())
    adts = {k: v for k, v in db.adts.items() if k.startswith(AST) and v.get("local")}
    roots = [AST + "r#type::TypeStatement", AST + "import::ImportStatement"]
    reach = set()
    work = [r for r in roots if r in adts]
    ctx.ob("R05.1", "anchor", len(work) == 2, "declaration roots found: %s" % work, nontrivial=False)
    while work:
        k = work.pop()
        if k in reach or k not in adts:
            continue
        reach.add(k)
        for v in adts[k]["variants"]:
            for fl in v["fields"]:
                work.extend(m for m in fl["adts"] if m in adts)
    for k in sorted(reach):
        a = adts[k]
        if k.endswith("::DocComment"):
            continue   # documentation is not part of the type
        for v in a["variants"]:
            for fl in v["fields"]:
                label = "%s%s.%s" % (k.split("::")[-1], ("::" + v["name"]) if a["kind"] == "enum" else "", fl["name"])
                if fl["name"] in SKIP_FIELDS and (fl["name"] == "docs" or fl["ty"].endswith("SourceSpan")):
                    continue
                if fl["ty"].endswith("SourceSpan"):
                    continue
                ok = (fl["name"], k, v["name"]) in read
                ctx.ob("R05.1", "field|" + label, ok, "consumed by the resolver" if ok else
                       "`%s` is never read by the resolver: the construct is silently ignored" % label, site=a.get("span", ""))
    ctx.floor("R05.1", 60)


def defined_dispatch(ctx):
    """DefinedType::V -> TypeEncoder method of the same (snake-case) name."""
    db, prov = ctx.db, ctx.prov
    f = db.fn("wac_graph::encoding::TypeEncoder::defined")
    ctx.touch(f)
    rows = tables.enum_to_callee(db, prov, f, "wac_graph::encoding::TypeEncoder::")
    alias = {"enum": "enum_type"}
    n = 0
    for adt, v, callee, sp in rows:
        if not adt.endswith("component::DefinedType") or v == "Alias":
            continue
        n += 1
        want = alias.get(tables.snake(v), tables.snake(v))
        ctx.ob("R05.2", "encode|DefinedType::" + v, callee == want, "DefinedType::%s is encoded by TypeEncoder::%s" % (v, callee) if callee == want else
               "DefinedType::%s is encoded by TypeEncoder::%s (expected %s): two constructors are cross-wired" % (v, callee, want), site="%s in %s" % (sp, f.id))
    ctx.ob("R05.2", "encode-rows", n >= 10, "DefinedType dispatch rows: %d" % n, nontrivial=False)
    # the inner dispatch on the aliased / referenced value type: ValueType::V -> TypeEncoder method of the same name
    # (a `borrow<r>` written by the `own` encoder silently changes every signature that mentions the alias)
    nv = 0
    for fn in ("defined", "value_type"):
        g = db.fns.get("wac_graph::encoding::TypeEncoder::" + fn)
        if g is None:
            continue
        ctx.touch(g)
        for adt, v, callee, sp in tables.enum_to_callee(db, prov, g, "wac_graph::encoding::TypeEncoder::"):
            if not adt.endswith("component::ValueType"):
                continue
            nv += 1
            want = tables.snake(v)
            ctx.ob("R05.2", "encode|%s|ValueType::%s" % (fn, v), callee == want, "ValueType::%s is encoded by TypeEncoder::%s" % (v, callee) if callee == want else
                   "in TypeEncoder::%s, ValueType::%s is encoded by TypeEncoder::%s (expected %s): the handle kind / constructor is cross-wired" % (fn, v, callee, want), site="%s in %s" % (sp, g.id))
    ctx.ob("R05.2", "encode-value-rows", nv >= 6, "ValueType dispatch rows: %d" % nv, nontrivial=False)
    # each TypeEncoder constructor method calls the wasm-encoder method of the same name
    pairs = {"tuple": "tuple", "list": "list", "fixed_size_list": "fixed_length_list", "option": "option", "result": "result", "variant": "variant",
             "record": "record", "flags": "flags", "enum_type": "enum_type", "stream": "stream", "future": "future", "borrow": "borrow", "own": "own"}
    for m, we in sorted(pairs.items()):
        g = db.fns.get("wac_graph::encoding::TypeEncoder::" + m)
        if g is None:
            ctx.lost("R05.2", "TypeEncoder::" + m)
            continue
        ctx.touch(g)
        called = set()
        seen = set()
        work = [g]
        while work:     # look through helpers extracted from the method (local callees in the encoder, depth-limited by `seen`)
            h = work.pop()
            if h.id in seen or len(seen) > 6:
                continue
            seen.add(h.id)
            for t in h.calls():
                p_ = t.path or ""
                if p_.startswith("wasm_encoder::component::types::ComponentDefinedTypeEncoder::"):
                    called.add(p_.rsplit("::", 1)[1])
                elif p_.startswith("wac_graph::encoding::TypeEncoder::") and p_ in db.fns and p_.rsplit("::", 1)[1] not in pairs and p_.rsplit("::", 1)[1] not in ("value_type", "defined", "ty"):
                    work.append(db.fns[p_])
        ctx.ob("R05.2", "emit|" + m, called == {we}, "TypeEncoder::%s emits `%s`" % (m, we) if called == {we} else "TypeEncoder::%s emits %s (expected `%s`)" % (m, sorted(called), we), site=g.span)


def resource_conventions(ctx):
    db, prov = ctx.db, ctx.prov
    f = db.fns.get(RES + "method_extern_name")
    if f is None:
        ctx.lost("R05.3", "method_extern_name")
        return
    ctx.touch(f)
    cfg = CFG(f)
    want = {"Method": "[method]", "Static": "[static]", "Constructor": "[constructor]"}
    got = {}
    for bidx, adt, arms, other in tables.switch_arms(db, prov, f):
        if not adt.endswith("FuncKind"):
            continue
        for v, tg in arms:
            for x in tables.arm_region(cfg, tg, set(), limit=20):
                t = cfg.blocks[x].term
                if t.k == "call":
                    for a in t.args:
                        tx = arguments_text(prov, f, a)
                        m = re.search(r"\[(\w+)\]", tx or "")
                        if m:
                            got.setdefault(v, "[%s]" % m.group(1))
    for v, w in sorted(want.items()):
        ctx.ob("R05.3", "extern-name|" + v, got.get(v) == w, "FuncKind::%s -> `%s…`" % (v, w) if got.get(v) == w else "FuncKind::%s is named with prefix %s (expected %s)" % (v, got.get(v), w), site=f.span)


def use_renames(ctx):
    db, prov = ctx.db, ctx.prov
    f = db.fn(RES + "AstResolver::use_type")
    bodies = db.with_closures(f)
    ctx.touch(f)
    used = [s for s in f.stmts() if s.rv.k == "agg" and s.rv.j.get("adt", "").endswith("component::UsedType")]
    ctx.ob("R05.4", "anchor", len(used) == 1, "UsedType constructions in use_type: %d" % len(used), nontrivial=False)
    for s in used:
        ops = dict(zip(s.rv.j.get("fields", []), s.rv.ops))
        ns = prov.slice(f, ops["name"])
        ok = ns.has_call("Option::map") and ns.has_field("as_id", "r#type::UseItem") and ns.has_field("id", "r#type::UseItem")
        ctx.ob("R05.4", "original-name-iff-renamed", ok, "UsedType.name = Some(original id) exactly when the item has an `as` clause" if ok else
               "UsedType.name is not `item.as_id.map(|_| item.id…)`", site=s.span)
    # the local name registered is as_id.unwrap_or(id)
    uo = [t for t in f.calls() if (t.path or "").endswith("Option::unwrap_or") and prov.slice(f, t.args[0]).has_field("as_id") and prov.slice(f, t.args[1]).has_field("id", "r#type::UseItem")]
    ctx.ob("R05.4", "local-name", bool(uo), "the local name is `as_id.unwrap_or(id)`" if uo else "the local name of a used type is not as_id.unwrap_or(id)", site=f.span)
    # the export is looked up under the original id
    g = [t for t in f.calls() if (t.path or "").endswith("IndexMap::get") and narrow(prov, f, t.args[0]).has_field("exports", "component::Interface")]
    ok = bool(g) and all(prov.slice(f, t.args[1]).has_field("id", "r#type::UseItem") and not prov.slice(f, t.args[1]).has_field("as_id") for t in g)
    ctx.ob("R05.4", "lookup-original", ok, "the used type is looked up in the interface under its original name" if ok else "the used type is not looked up under item.id", site=f.span)


def scopes(ctx):
    db, prov = ctx.db, ctx.prov
    rs = db.fn(RES + "State::root_scope")
    ctx.touch(rs)
    firsts = [t for t in rs.calls() if (t.path or "").endswith(("slice::<impl [T]>::first", "::first"))]
    lasts = [t for t in rs.calls() if (t.path or "").endswith(("::last", "::last_mut", "::pop"))]
    ok = bool(firsts) and not lasts
    ctx.ob("R05.5", "root-scope-is-first", ok, "the root scope is the first pushed scope (or the current one when none is pushed)" if ok else
           "root_scope does not return the *first* scope: inside a nested inline interface, names are looked up in the enclosing world's scope", site=rs.span)
    n = 0
    PUSH, POP = RES + "State::push_scope", RES + "State::pop_scope"
    for f in db.fns.values():
        if not f.id.startswith(RES) or f.id.startswith(RES + "State::"):
            continue
        if not any(t.path in (PUSH, POP) for t in f.calls()):
            continue
        n += 1
        ctx.touch(f)
        cfg = CFG(f)
        errs = error_blocks(f)
        depth = {0: 0}
        work = [0]
        ok = True
        why = "push_scope/pop_scope are balanced on every successful path"
        while work and ok:
            b = work.pop()
            d = depth[b]
            t = cfg.blocks[b].term
            if t.k == "call" and t.path == PUSH:
                d += 1
            elif t.k == "call" and t.path == POP:
                d -= 1
            if t.k == "return" and d != 0 and b not in errs:
                # error returns may leave scopes pushed (the resolution is abandoned)
                if not any(cfg.reaches(e, b) or e == b for e in errs):
                    ok = False
                    why = "a successful path returns with %d name scope(s) still pushed" % d
            for s in cfg.succ[b]:
                if cfg.blocks[s].term.k == "unreachable" or cfg.diverges(s) or s in errs:
                    continue
                if s in depth:
                    if depth[s] != d and cfg.blocks[s].term.k != "return":
                        ok = False
                        why = "paths join with different name-scope depths (%d vs %d)" % (depth[s], d)
                else:
                    depth[s] = d
                    work.append(s)
        ctx.ob("R05.5", "scope-balance|" + f.id.rsplit("::", 1)[1], ok, why, site=f.span)
    ctx.ob("R05.5", "count", n >= 3, "resolver bodies that push name scopes: %d" % n, nontrivial=False)
