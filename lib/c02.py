"""C02 — encoded wiring is exactly the composition graph (structural part)."""
from cfg import CFG
from prov import narrow
from pat import *
from facts import Operand, strip_generics
import tables

EXPLANATION = ("provenance rules over the MIR of CompositionGraphEncoder: every emitted (name, kind, index) triple of an instantiation "
               "argument, alias and export originates in the same edge / (source, export) pair / export-map entry; embedded components "
               "are memoised per PackageId and their bytes are the registered package's bytes; the export loop skips exactly type "
               "definitions (by node kind); the name section's per-kind maps, guards and section methods agree; kind-conversion tables "
               "map each variant to its namesake. Necessary conditions of wiring fidelity; run-time index values are not decided")

GR = "wac_graph::graph::"
ENCODER = GR + "CompositionGraphEncoder::"
NAME_METHODS = {"Type": "types", "Func": "funcs", "Instance": "instances", "Component": "components", "Module": "core_modules", "Value": "values"}


def run(ctx):
    db, prov = ctx.db, ctx.prov
    argument_triple(ctx)
    alias_triple(ctx)
    fresh_index(ctx)
    no_fabricated_node_index(ctx)
    import cachewriters
    cachewriters.check(ctx, "R02.9")
    export_triple(ctx)
    embed_once(ctx)
    name_section(ctx)
    fns = [f for f in db.fns.values() if f.crate in ("wac_graph", "wac_types") and not f.from_expansion]
    n = tables.check_enum_tables(ctx, "R02.7", fns, only=lambda e1, e2: e1.endswith("ItemKind") and ("ComponentExportKind" in e2 or "ComponentTypeRef" in e2))
    ctx.ob("R02.7", "count", n >= 18, "ItemKind -> export-kind / type-ref table rows checked: %d" % n, nontrivial=False)
    # the argument edges are what the encoder reads: unset must remove the edge of the argument it clears (C06's R06.9)
    import c06
    from c01 import ctx_alias
    c06.check_edge_selection(ctx_alias(ctx, "R02.8"), [f for f in db.fns.values() if f.crate == "wac_graph"])
    import engine
    c06.run(engine.AliasCtx(ctx, {"R06.1": "R02.8", "R06.2": "R02.8"}))


def argument_triple(ctx):
    db, prov = ctx.db, ctx.prov
    f = db.fn(ENCODER + "instantiation")
    bodies = db.with_closures(f)
    for b in bodies:
        ctx.touch(b)
    # the closure that maps incoming edges to (name, kind, index)
    found = 0
    for c in bodies[1:]:
        tuples = [s for s in c.stmts() if s.rv.k == "agg" and s.rv.j.get("tuple") and len(s.rv.ops) == 3]
        for tp in tuples:
            sn, sk, si = (prov.slice(c, o) for o in tp.rv.ops)
            if not (si.has_field("node_indexes", "encoding::State") or sk.has_field("item_kind", "graph::Node")):
                continue
            found += 1
            name_ok = sn.has_call("IndexMap::get_index") and any(nm == "0" and o.endswith("graph::Edge") and v == "Argument" for nm, o, v in sn.fields) \
                and sn.has_field("imports", "component::World")
            kind_ok = sk.has_field("item_kind", "graph::Node") and sk.has_call("EdgeRef>::source") and not sk.has_call("EdgeRef>::target")
            idx_ok = si.has_field("node_indexes", "encoding::State") and si.has_call("EdgeRef>::source") and not si.has_call("EdgeRef>::target")
            ctx.ob("R02.1", "argument-name", name_ok, "argument name = imports[edge.Argument payload] of the instantiated package" if name_ok else
                   "the argument name does not come from `imports.get_index(<Edge::Argument payload>)`", site="%s in %s" % (tp.span, c.id))
            ctx.ob("R02.1", "argument-kind", kind_ok, "argument kind = item kind of the edge's *source* node" if kind_ok else
                   "the argument kind is not taken from the edge's source node", site="%s in %s" % (tp.span, c.id))
            ctx.ob("R02.1", "argument-index", idx_ok, "argument index = node_indexes[edge.source()]" if idx_ok else
                   "the argument index is not node_indexes[edge.source()] (e.g. target() or another table)", site="%s in %s" % (tp.span, c.id))
    ctx.ob("R02.1", "anchor", found == 1, "argument triple constructions found: %d" % found, nontrivial=False)
    # edges come from the incoming edges of the node being encoded; implicit args from implicit_args.remove(<this node>)
    cfg = CFG(f)
    ed = [t for t in f.calls() if (t.path or "").endswith("StableGraph::edges_directed")]
    ok = bool(ed) and all(prov.const_of(f, t.args[2]) == ("variant", "petgraph::Direction", "Incoming") and any(i == 3 for fid, i in prov.slice(f, t.args[1]).params) for t in ed)
    ctx.ob("R02.1", "incoming-edges-of-node", ok, "arguments are the incoming edges of the instantiation node being encoded" if ok else
           "argument edges are not the incoming edges of the node being encoded", site=f.span)
    rm = [t for t in f.calls() if (t.path or "").endswith("HashMap::remove") and narrow(prov, f, t.args[0]).has_field("implicit_args", "encoding::State")]
    ok = bool(rm) and all(any(i == 3 for fid, i in prov.slice(f, t.args[1]).params) for t in rm)
    ctx.ob("R02.1", "implicit-args-of-node", ok, "implicit arguments are exactly implicit_args.remove(<this node>)" if ok else
           "implicit arguments are not taken from implicit_args[<this node>]", site=f.span)
    inst = [t for t in f.calls() if (t.path or "").endswith("ComponentBuilder::instantiate")]
    ok = len(inst) == 1 and any((x.path or "").endswith(("component_raw", "ComponentBuilder::import")) or (x.path or "").endswith("HashMap::get") for _, x in prov.slice(f, inst[0].args[2]).calls)
    ctx.ob("R02.1", "instantiate-component", ok, "the instantiated component index is the embedded/imported component of this package" if ok else
           "instantiate() is not given the component index of the node's package", site=f.span)


def alias_triple(ctx):
    db, prov = ctx.db, ctx.prov
    f = db.fn(ENCODER + "alias")
    ctx.touch(f)
    aggs = [s for s in f.stmts() if s.rv.k == "agg" and s.rv.j.get("variant") == "InstanceExport" and s.rv.j.get("adt", "").endswith("Alias")]
    ctx.ob("R02.2", "anchor", len(aggs) == 1, "Alias::InstanceExport constructions: %d" % len(aggs), nontrivial=False)
    for s in aggs:
        fields = s.rv.j.get("fields", [])
        ops = dict(zip(fields, s.rv.ops))
        si, sk, sn = (prov.slice(f, ops[k]) for k in ("instance", "kind", "name"))
        src = lambda sl: any(x.path == GR + "CompositionGraph::get_alias_source" for _, x in sl.calls)
        ok_i = si.has_field("node_indexes", "encoding::State") and src(si)
        ok_n = src(sn) and not sn.has_field("node_indexes")
        ok_k = src(sk) and sk.has_field("exports", "component::Interface")
        ctx.ob("R02.2", "alias-instance", ok_i, "instance = node_indexes[source of the alias]" if ok_i else "alias instance index is not node_indexes[alias source]", site=s.span)
        ctx.ob("R02.2", "alias-name", ok_n, "name = export name returned by get_alias_source for this node" if ok_n else "alias name is not the source's export name", site=s.span)
        ctx.ob("R02.2", "alias-kind", ok_k, "kind = kind of that export in the source instance's type" if ok_k else "alias kind is not looked up from the source instance's exports", site=s.span)
    q = [t for t in f.calls() if t.path == GR + "CompositionGraph::get_alias_source"]
    ok = bool(q) and all(any(i == 3 for fid, i in prov.slice(f, t.args[1]).params) for t in q)
    ctx.ob("R02.2", "alias-of-this-node", ok, "the alias source is queried for the node being encoded" if ok else "get_alias_source is not asked about the node being encoded", site=f.span)


def no_fabricated_node_index(ctx):
    """R02.6: the encoder looks nodes up by the indices the graph hands out (`node_indices()`, edge endpoints, export map);
    in a StableGraph a node's *position* in an iteration is not its index once a node was removed, so `NodeIndex::new(pos)`
    in the encoder attaches names / wiring to another node."""
    db = ctx.db
    bad = []
    for f in db.fns.values():
        if f.crate != "wac_graph" or f.from_expansion or not f.id.startswith(GR + "CompositionGraphEncoder"):
            continue
        for t in f.calls():
            if (t.path or "").endswith(("graph_impl::NodeIndex::new", "NodeIndex::new", "graph_impl::node_index")) and "petgraph" in (t.path or ""):
                bad.append("%s in %s" % (t.span, f.id))
    ctx.ob("R02.6", "no-fabricated-node-index", not bad, "the encoder never builds a NodeIndex from a number" if not bad else
           "the encoder builds a NodeIndex from a position (%s): after a node removal positions and indices of the StableGraph differ, the item is attributed to another node" % "; ".join(bad))


def fresh_index(ctx):
    """R02.2/R02.1 `own-emission`: the index the encoder records for an alias node / an instantiation node is the
    result of *that node's own* emission — every normal return of `alias` / `instantiation` passes through its
    `ComponentBuilder::{alias,instantiate}` call and returns that call's result.  (An index taken from a cache keyed
    by anything coarser than the node — e.g. by type — makes the alias of one instance's export stand for another's.)"""
    from cfg import CFG
    db, prov = ctx.db, ctx.prov
    for rule, fname, emit in (("R02.2", "alias", "ComponentBuilder::alias"), ("R02.1", "instantiation", "ComponentBuilder::instantiate")):
        f = db.fn(ENCODER + fname)
        ctx.touch(f)
        cfg = CFG(f)
        em = [t for t in f.calls() if (t.path or "").endswith(emit)]
        ctx.ob(rule, "own-emission-anchor|" + fname, len(em) == 1, "%s emission sites in %s: %d" % (emit, fname, len(em)), nontrivial=False)
        if len(em) != 1:
            continue
        rets = [b.idx for b in f.blocks if b.term.k == "return" and not b.cleanup]
        ok_path = bool(rets) and all(cfg.must_pass([em[0].bb], src=0, dsts={r}) for r in rets)
        sl = prov.slice(f, 0)
        ok_val = any(c is em[0] for _, c in sl.calls)
        other = sorted(n for n in sl.field_names() if n.endswith("_indexes") or n in ("instances", "packages", "resources"))
        # maps may be *read* to build the emission's operands; what must not happen is a return value that bypasses the emission
        ok = ok_path and ok_val
        ctx.ob(rule, "own-emission|" + fname, ok,
               "every return of %s yields the index produced by its own %s call" % (fname, emit) if ok else
               "%s can return without emitting (%s): the recorded index then belongs to some other item%s" % (
                   fname, "a return path bypasses the emission" if not ok_path else "the returned value is not the emission's result",
                   " (index maps read on the way: %s)" % ", ".join(other) if other else ""),
               site=f.span)


def export_triple(ctx):
    db, prov = ctx.db, ctx.prov
    f = db.fn(ENCODER + "encode")
    bodies = db.with_closures(f)
    ctx.touch(f)
    exps = [t for t in f.calls() if (t.path or "").endswith("ComponentBuilder::export")]
    ctx.ob("R02.3", "anchor", len(exps) == 1, "export emissions in encode: %d" % len(exps), nontrivial=False)
    for t in exps:
        sn, sk, si = (prov.slice(f, t.args[i]) for i in (1, 2, 3))
        it = lambda sl: sl.has_field("exports", "graph::CompositionGraph") and sl.has_call("::next")
        ok_n = it(sn)
        ok_i = si.has_field("node_indexes", "encoding::State") and it(si)
        ok_k = sk.has_field("item_kind", "graph::Node") and it(sk)
        ctx.ob("R02.3", "export-name", ok_n, "export name = key of the export-map entry" if ok_n else "export name does not come from the export map", site=t.span)
        ctx.ob("R02.3", "export-index", ok_i, "export index = node_indexes[node of the same entry]" if ok_i else "export index is not node_indexes[entry's node]", site=t.span)
        ctx.ob("R02.3", "export-kind", ok_k, "export kind = item kind of the same entry's node" if ok_k else "export kind is not the item kind of the entry's node", site=t.span)
    # the filter: skips exactly definitions — tests the node *kind*, not its item kind
    filt = [t for t in f.calls() if (t.path or "").endswith("Iterator::filter")]
    okf = False
    whyf = "no filter over the export map found"
    for t in filt:
        if not prov.slice(f, t.args[0], follow_closures=False).has_field("exports", "graph::CompositionGraph"):
            continue
        for fa in t.fnargs:
            c = db.fns.get(strip_generics(fa))
            if c is None:
                continue
            ctx.touch(c)
            ds = [s for s in c.stmts() if s.rv.k == "discr"]
            adts = {s.rv.j.get("adt") for s in ds}
            kinds = [s for s in ds if s.rv.j.get("adt", "").endswith("graph::NodeKind")]
            okf = bool(kinds) and not any(a.endswith("component::ItemKind") or a.endswith("component::Type") for a in adts if a)
            # which variant is tested: Definition
            if okf:
                okf = False
                for b in c.blocks:
                    if b.term.k == "switch":
                        vs = [db.variant_by_discr("wac_graph::graph::NodeKind", v) for v, _ in b.term.j["targets"]]
                        if "Definition" in vs:
                            okf = True
            whyf = "exports of definition nodes (already exported when defined) are skipped by node kind" if okf else \
                "the export filter does not test `NodeKind::Definition` (it reads %s): exports of other type-kind nodes are dropped or definitions exported twice" % sorted(a.split("::")[-1] for a in adts if a)
    ctx.ob("R02.3", "export-filter", okf, whyf, site=f.span)
    # definitions are exported where they are defined
    d = db.fn(ENCODER + "definition")
    ctx.touch(d)
    de = [t for t in d.calls() if (t.path or "").endswith("ComponentBuilder::export")]
    okd = len(de) == 1 and prov.slice(d, de[0].args[1]).has_field("export", "graph::Node")
    ctx.ob("R02.3", "definition-export", okd, "a definition is exported once, under its own export name, when it is encoded" if okd else "definitions are not exported under Node.export when encoded", site=d.span)
    others = [g.id for g in db.fns.values() if g.crate == "wac_graph" and g.id not in (f.id, d.id) and any((t.path or "").endswith("ComponentBuilder::export") for t in g.calls())]
    ctx.ob("R02.3", "no-other-export", not others, "nothing else emits top-level exports" if not others else "other functions emit top-level exports: %s" % others)


def embed_once(ctx):
    db, prov = ctx.db, ctx.prov
    f = db.fn(ENCODER + "instantiation")
    cfg = CFG(f)
    gets = [t for t in f.calls() if (t.path or "").endswith("HashMap::get") and narrow(prov, f, t.args[0]).has_field("packages", "encoding::State")]
    ins = [t for t in f.calls() if (t.path or "").endswith("HashMap::insert") and narrow(prov, f, t.args[0]).has_field("packages", "encoding::State")]
    raw = [t for t in f.calls() if (t.path or "").endswith(("ComponentBuilder::component_raw", "ComponentBuilder::import"))]
    ctx.ob("R02.4", "anchor", len(gets) == 1 and len(ins) == 1 and len(raw) == 2, "memo get/insert/emit sites: %d/%d/%d" % (len(gets), len(ins), len(raw)), nontrivial=False)
    if not (gets and ins and raw):
        return
    g, i = gets[0], ins[0]
    key_ok = all(s.has_field("package", "graph::Node") and not s.has_call("Package::name") and not s.has_call("Package::key")
                 for s in (prov.slice(f, g.args[1]), prov.slice(f, i.args[1])))
    kty = [a for a in g.gen_args[:1]]
    key_ty_ok = any("PackageId" in a for a in g.gen_args)
    ctx.ob("R02.4", "memo-key", key_ok and key_ty_ok, "the component memo is keyed by the node's PackageId (get and insert alike)" if key_ok and key_ty_ok else
           "the component memo is not keyed by PackageId (key types %s): two registered packages that share a name would share one embedded component" % g.gen_args[:1], site=g.span)
    # miss edge leads to the emission; the insert post-dominates the emission
    sw = None
    for b in f.blocks:
        if b.term.k == "switch":
            sl = prov.slice(f, Operand(b.term.j["discr"]))
            if any(x is g for _, x in sl.calls):
                sw = b
    ok = False
    if sw is not None:
        miss = [tg for v, tg in sw.term.j["targets"] if v == 0] or [sw.term.j["otherwise"]]
        hit = [tg for v, tg in sw.term.j["targets"] if v == 1]
        ok = all(any(cfg.dominates(m, r.bb) for m in miss) and not any(cfg.dominates(h, r.bb) for h in hit) for r in raw) \
            and all(cfg.must_pass([i.bb], src=r.bb) for r in raw)
    ctx.ob("R02.4", "embed-on-miss-then-record", ok, "a component is embedded/imported only on a memo miss and is then recorded" if ok else
           "embedding is not (miss -> emit -> insert): a package could be embedded more than once or never recorded", site=f.span)
    cr = [t for t in raw if t.path.endswith("component_raw")]
    okb = bool(cr) and all(any((x.path or "").endswith("package::Package::bytes") for _, x in prov.slice(f, t.args[2]).calls) for t in cr)
    ctx.ob("R02.5", "bytes-identity", okb, "embedded bytes are Package::bytes() of the node's package" if okb else "component_raw is not given Package::bytes()", site=f.span)
    # Package.bytes is written only by the constructor
    writers = set()
    for g_ in db.fns.values():
        if g_.crate != "wac_types" or g_.from_expansion:
            continue   # derive(Clone) copies the value; it is not a second writer
        for s in g_.stmts():
            if any(n == "bytes" and o.endswith("package::Package") for n, o, v in s.lhs.fields()):
                writers.add(g_.id)
            if s.rv.k == "agg" and s.rv.j.get("adt", "").endswith("package::Package") and "bytes" in s.rv.j.get("fields", []):
                writers.add(g_.id)
    ctx.ob("R02.5", "bytes-writers", writers == {"wac_types::package::Package::from_bytes"}, "Package.bytes is written only when the package is constructed: %s" % sorted(writers))


def name_section(ctx):
    db, prov = ctx.db, ctx.prov
    f = db.fn(ENCODER + "encode_names")
    ctx.touch(f)
    cfg = CFG(f)
    d = prov.defs(f)
    # section calls: names.<m>(&map)
    sec = {}
    for t in f.calls():
        p = t.path or ""
        if "ComponentNameSection::" in p and p.rsplit("::", 1)[1] in NAME_METHODS.values():
            root = root_local(prov, f, t.args[1])
            sec[p.rsplit("::", 1)[1]] = (root, t)
    ctx.ob("R02.6", "anchor", len(sec) == 6, "name-section emissions: %s" % sorted(sec), nontrivial=False)
    # arm table: ItemKind variant -> map local
    arm = {}
    for bidx, adt, arms, other in tables.switch_arms(db, prov, f):
        if not adt.endswith("component::ItemKind"):
            continue
        for v, tg in arms:
            for x in tables.arm_region(cfg, tg, set()):
                for s in cfg.blocks[x].stmts:
                    if s.rv.k == "ref" and s.rv.j.get("mut") and not s.rv.place.proj and "NameMap" in f.local_ty(s.rv.place.local):
                        arm.setdefault(v, s.rv.place.local)
    for v, m in sorted(NAME_METHODS.items()):
        ok = v in arm and m in sec and arm[v] == sec[m][0]
        ctx.ob("R02.6", "names|%s" % v, ok, "names of %s nodes are collected in the map passed to `%s`" % (v, m) if ok else
               "names of %s nodes are collected in a different map than the one emitted by `%s`" % (v, m), site=f.span)
    # guards: each emission is dominated by !is_empty() of the same map
    for m, (root, t) in sorted(sec.items()):
        ok = False
        for c in f.calls():
            if (c.path or "").endswith("NameMap::is_empty") and root_local(prov, f, c.args[0]) == root:
                sw = switch_after(cfg, c)
                if sw is not None:
                    tt, ft = true_false_targets(sw)
                    if any(cfg.dominates(x, t.bb) for x in ft) and not any(cfg.dominates(x, t.bb) for x in tt):
                        ok = True
        ctx.ob("R02.6", "guard|%s" % m, ok, "`%s` is emitted exactly when its own map is non-empty" % m if ok else
               "`%s` is guarded by the emptiness of a *different* map (or not at all): names of that kind are lost when the other kind has none" % m, site=t.span)
    # recorded index = node_indexes[same node]
    ap = [t for t in f.calls() if (t.path or "").endswith("NameMap::append")]
    ok = bool(ap) and all(prov.slice(f, t.args[1]).has_field("node_indexes", "encoding::State") and prov.slice(f, t.args[2]).has_field("name", "graph::Node") for t in ap)
    ctx.ob("R02.6", "append", ok, "each named node is recorded as (node_indexes[node], node.name)" if ok else "name entries are not (node_indexes[node], node.name)", site=f.span)


def root_local(prov, f, op):
    """the local a `&[mut] x` operand refers to (through reborrows)."""
    if op.place is None:
        return None
    l = op.place.local
    d = prov.defs(f)
    for _ in range(6):
        ds = [x for x in d.defs.get(l, ()) if x[0] == "stmt"]
        if len(ds) != 1:
            return l
        rv = ds[0][1].rv
        if rv.k == "ref" and all(p[0] == "deref" for p in rv.place.proj):
            l = rv.place.local
        elif rv.k == "use" and rv.ops[0].place is not None and not rv.ops[0].place.proj:
            l = rv.ops[0].place.local
        else:
            return l
    return l
