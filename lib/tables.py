"""A6 constant tables: enum -> enum and enum -> callee correspondences read off `match` dispatches in MIR."""
import re, json, os
from collections import defaultdict
from cfg import CFG
from facts import Operand
import engine


def snake(s):
    return re.sub(r"(?<!^)(?=[A-Z])", "_", s).lower()


def norm(s):
    return re.sub(r"[^a-z0-9]", "", s.lower())


def aliases():
    p = os.path.join(engine.VERIF, "specs", "enum_aliases.json")
    if os.path.exists(p):
        return {(a["from"], a["to"]): a["reason"] for a in json.load(open(p))["aliases"]}
    return {}


def switch_arms(db, prov, f):
    """[(block, adt, [(variant, target block)], otherwise)] for every switch on an enum discriminant"""
    out = []
    d = prov.defs(f)
    for b in f.blocks:
        if b.cleanup or b.term.k != "switch":
            continue
        op = Operand(b.term.j["discr"])
        if op.place is None:
            continue
        adt = None
        for kind, site in d.defs.get(op.place.local, ()):
            if kind == "stmt" and site.rv.k == "discr":
                adt = site.rv.j.get("adt")
        if not adt or adt not in db.adts or db.adts[adt]["kind"] != "enum":
            continue
        arms = []
        for v, tg in b.term.j["targets"]:
            nm = db.variant_by_discr(adt, v)
            if nm is not None:
                arms.append((nm, tg))
        # when exactly one variant is not listed, `otherwise` is that variant's arm
        listed = {a for a, _ in arms}
        rest = [v["name"] for v in db.adts[adt]["variants"] if v["name"] not in listed]
        if len(rest) == 1:
            arms.append((rest[0], b.term.j["otherwise"]))
        out.append((b.idx, adt, arms, b.term.j["otherwise"]))
    return out


def arm_region(cfg, start, stop_blocks, limit=24):
    """blocks of an arm: straight-line chain from the arm's first block (follows single successors and calls)."""
    out = []
    x = start
    seen = set()
    while x is not None and x not in seen and x not in stop_blocks and len(out) < limit:
        seen.add(x)
        out.append(x)
        su = cfg.succ[x]
        if len(su) != 1:
            # `expr?` inside the arm: follow the success (Continue) edge of the desugared Try::branch switch
            t = cfg.blocks[x].term
            nxt = None
            if t.k == "switch" and any("QuestionMark" in m for m in (t.mac or [])):
                cont = [tg for v, tg in t.j["targets"] if v == 0]
                if cont:
                    nxt = cont[0]
            if nxt is None:
                break
            x = nxt
            continue
        x = su[0]
    return out


def enum_to_enum(db, prov, f):
    """{(E1, E2): [(V1, V2, span)]} — arms whose straight-line code builds exactly one variant of another enum."""
    cfg = CFG(f)
    res = defaultdict(list)
    for bidx, adt, arms, other in switch_arms(db, prov, f):
        tgts = {tg for _, tg in arms}
        for v1, tg in arms:
            found = []
            for x in arm_region(cfg, tg, tgts - {tg}):
                for s in cfg.blocks[x].stmts:
                    if s.rv.k == "agg" and "adt" in s.rv.j and s.rv.j["adt"] != adt and s.rv.j["adt"] in db.adts \
                            and db.adts[s.rv.j["adt"]]["kind"] == "enum" and not s.rv.j["adt"].endswith(("result::Result", "option::Option", "ControlFlow")):
                        found.append((s.rv.j["adt"], s.rv.j["variant"], s.span))
            e2s = {a for a, _, _ in found}
            for e2 in e2s:
                vs = [(v, sp) for a, v, sp in found if a == e2]
                if len({v for v, _ in vs}) == 1:
                    res[(adt, e2)].append((v1, vs[0][0], vs[0][1]))
    return res


def enum_to_callee(db, prov, f, prefix):
    """[(E1, V1, callee short name, span)] — arms whose first call is a local method with the given path prefix."""
    cfg = CFG(f)
    res = []
    for bidx, adt, arms, other in switch_arms(db, prov, f):
        tgts = {tg for _, tg in arms}
        for v1, tg in arms:
            for x in arm_region(cfg, tg, tgts - {tg}):
                t = cfg.blocks[x].term
                if t.k == "call" and (t.path or "").startswith(prefix):
                    res.append((adt, v1, t.path.rsplit("::", 1)[1], t.span))
                    break
    return res


def check_enum_tables(ctx, rule, fns, min_pairs=3, only=None):
    """one obligation per (function, E1.V1 -> E2.V2) row: the variant names correspond."""
    db, prov = ctx.db, ctx.prov
    al = aliases()
    n = 0
    for f in fns:
        tabs = enum_to_enum(db, prov, f)
        for (e1, e2), rows in sorted(tabs.items()):
            if len(rows) < min_pairs:
                continue
            if only and not only(e1, e2):
                continue
            same = sum(1 for v1, v2, _ in rows if norm(v1) == norm(v2))
            if same * 2 < len(rows):
                continue   # not a same-name table (e.g. a classification)
            ctx.touch(f)
            for v1, v2, sp in rows:
                n += 1
                ok = norm(v1) == norm(v2) or ("%s::%s" % (e1.split("::")[-1], v1), "%s::%s" % (e2.split("::")[-1], v2)) in al
                ctx.ob(rule, "table|%s|%s::%s" % (short_fn(f.id), e1.split("::")[-1], v1), ok,
                       "%s::%s -> %s::%s" % (e1.split("::")[-1], v1, e2.split("::")[-1], v2) if ok else
                       "%s::%s is converted to %s::%s (every other row of this table maps a variant to its namesake)" % (e1.split("::")[-1], v1, e2.split("::")[-1], v2),
                       site="%s in %s" % (sp, f.id))
    return n


def short_fn(fid):
    m = re.match(r"\w+::<([^ ]+) as ([^>]+?)(<.*)?>::(\w+)", fid)
    if m:
        return "%s as %s::%s" % (m.group(1).split("::")[-1], m.group(2).split("::")[-1] + (m.group(3) or ""), m.group(4))
    return "::".join(fid.split("::")[-2:])
