"""C12 — the parser accepts exactly the documented grammar (structural part).

R12.3 token table: lexer attributes agree with the Display table and the naming convention; LANGUAGE.md keywords
R12.4 whole-source screening: decision table over code points (interval abstract interpretation of the MIR), dominance over lexing
R12.5 versions are parsed with semver and failures mapped to InvalidVersion; paths split at the first '/' and '@'
R12.6 the whole input is consumed; R12.7 parse_delimited separator discipline; R12.9 nested comment scanner consumes delimiters as units
R12.1 per-production token-language equivalence with the reviewed automata, R12.2 Peek/FIRST agreement and list progress,
R12.8 lookahead freshness: lib/c12_grammar.py on top of lib/grammar.py"""
import os, re, json
from cfg import CFG, error_blocks
from prov import narrow
from pat import *
from facts import Operand, strip_generics
import engine

EXPLANATION = ("structural rules over wac-parser: (a) the token table — the spelling in each logos attribute agrees with the Display table "
               "and the variant naming convention, and the keyword set equals LANGUAGE.md's; (b) the whole-source screening function is "
               "abstractly interpreted over intervals of code points: exactly U+202A–202E, U+2066–2069 reach the bidi error, the eight "
               "deprecated code points reach the discouraged error, only TAB/LF/CR bypass the control test, every error span is "
               "(offset, len_utf8), and screening dominates lexer creation; (c) version strings go through semver parsing, package "
               "paths are split at the first '/' and '@'; (d) the statement loop runs to end of input; (e) parse_delimited's separator "
               "discipline; (f) the nested-comment scanner consumes two-byte delimiters as units. Decides these necessary conditions "
               "of the accepted language, not the language itself")

LEX = "wac_parser::lexer::"
BIDI = set(range(0x202a, 0x202f)) | set(range(0x2066, 0x206a))
DISC = {0x149, 0x673, 0xf77, 0xf79, 0x17a3, 0x17a4, 0x17b4, 0x17b5}
MAXCP = 0x110000


def repo_root(ctx):
    r = getattr(ctx, "repo_root", None)
    if r and os.path.isdir(r):
        return r
    return ctx.db.meta["wac_parser"]["cwd"]


def token_attrs(ctx):
    """variant -> ('token'|'regex', literal) read from the source between consecutive variant spans."""
    adt = ctx.db.adt("wac_parser::lexer::Token")
    path = None
    lines = None
    out = {}
    prev_line = None
    spans = []
    for v in adt["variants"]:
        f, ln, col = v["span"].rsplit(":", 2)
        spans.append((v["name"], f, int(ln)))
    for i, (name, f, ln) in enumerate(spans):
        if lines is None:
            path = os.path.join(repo_root(ctx), f)
            lines = open(path).read().split("\n")
        lo = spans[i - 1][2] if i > 0 else max(0, ln - 12)
        chunk = "\n".join(lines[lo:ln - 1])
        m = re.findall(r'#\[(token|regex)\(\s*r?"((?:[^"\\]|\\.)*)"', chunk)
        if m:
            kind, lit = m[-1]
            if kind == "token":
                lit = lit.replace('\\"', '"').replace("\\\\", "\\")
            out[name] = (kind, lit)
    return out


def _unrust(raw, lit):
    """the value of a Rust string literal body (`raw` = it was written r"...")"""
    if raw:
        return lit
    return re.sub(r"\\(.)", lambda m: {"n": "\n", "t": "\t", "r": "\r", "0": "\0"}.get(m.group(1), m.group(1)), lit)


def lexical_patterns(ctx, adt_path):
    """{'skip': [regex], 'subs': [(name, regex)], 'regex': {variant: regex}, 'token': {variant: literal}} for a Logos enum,
    read from the attribute text between the enum's derive and its variants."""
    adt = ctx.db.adt(adt_path)
    f, ln, col = adt["span"].rsplit(":", 2)
    lines = open(os.path.join(repo_root(ctx), f)).read().split("\n")
    ln = int(ln)
    # header: walk up over the attribute / doc lines that precede the enum item
    lo = ln - 1
    while lo > 0 and re.match(r"\s*(#\[|///|//|pub enum|enum)", lines[lo - 1]) :
        lo -= 1
    vs = [(v["name"], int(v["span"].rsplit(":", 2)[1])) for v in adt["variants"]]
    first = min(l for _, l in vs)
    head = "\n".join(lines[lo:first - 1])
    LIT = r'(r?)"((?:[^"\\]|\\.)*)"'
    out = {"skip": [], "subs": [], "regex": {}, "token": {}}
    for m in re.finditer(r"#\[logos\(\s*skip\s+" + LIT, head):
        out["skip"].append(_unrust(m.group(1), m.group(2)))
    for m in re.finditer(r"#\[logos\(\s*subpattern\s+(\w+)\s*=\s*" + LIT, head):
        out["subs"].append((m.group(1), _unrust(m.group(2), m.group(3))))
    prev = first - 1
    for i, (name, l) in enumerate(sorted(vs, key=lambda x: x[1])):
        chunk = "\n".join(lines[(sorted(vs, key=lambda x: x[1])[i - 1][1] if i else lo):l - 1])
        ms = list(re.finditer(r"#\[(token|regex)\(\s*" + LIT, chunk))
        if ms:
            m = ms[-1]
            out[m.group(1)][name] = _unrust(m.group(2), m.group(3))
    return out


def lexical(ctx):
    """R12.10: the *languages* of the lexer's pattern tokens and skip rules equal the reviewed lexical grammar
    (specs/lexical.json, written from LANGUAGE.md's `id` / `package-name` / `package-path` / `comment` / `whitespace`
    productions): regex -> NFA -> DFA over code-point classes, equivalence by product search; a re-spelling of the
    same language passes, any accepted/rejected string that changes is reported with a shortest witness."""
    import rx
    spec_p = os.path.join(engine.VERIF, "specs", "lexical.json")
    if not os.path.exists(spec_p):
        ctx.lost("R12.10", "specs/lexical.json")
        return
    spec = json.load(open(spec_p))
    n = 0
    for enum, ref in sorted(spec["enums"].items()):
        try:
            cur = lexical_patterns(ctx, enum)
        except Exception as e:
            ctx.lost("R12.10", "cannot read the Logos attributes of %s: %s" % (enum, e))
            continue
        site = ctx.db.adt(enum)["span"]
        short = enum.split("::")[-1]
        try:
            subs = rx.subpatterns(cur["subs"])
            refsubs = rx.subpatterns([tuple(x) for x in ref.get("subs", [])])
            # skipped input: the union of all skip rules
            if "skip" in ref:
                a = ("alt", [rx.parse(r, subs) for r in cur["skip"]]) if cur["skip"] else ("seq", [("set", ())])
                b = ("alt", [rx.parse(r, refsubs) for r in ref["skip"]])
                ok, w = rx.equivalent(a, b)
                n += 1
                ctx.ob("R12.10", "skip|" + short, ok, "skipped input (%s) is the reviewed whitespace language" % " | ".join(cur["skip"]) if ok else
                       "the skip rules %s differ from the reviewed whitespace language %s: %r — %s" % (cur["skip"], ref["skip"], w[0], w[1].replace("first", "lexer").replace("second", "reference")), site=site)
            for v, r in sorted(ref["regex"].items()):
                n += 1
                if v not in cur["regex"]:
                    ctx.ob("R12.10", "pattern|%s::%s" % (short, v), False, "no #[regex] attribute found for %s::%s" % (short, v), site=site)
                    continue
                ok, w = rx.equivalent(rx.parse(cur["regex"][v], subs), rx.parse(r, refsubs))
                ctx.ob("R12.10", "pattern|%s::%s" % (short, v), ok, "`%s` denotes the reviewed language of %s" % (cur["regex"][v], v) if ok else
                       "`%s` no longer denotes the reviewed language `%s` of %s: the string %r is accepted by %s" % (
                           cur["regex"][v], r, v, w[0], "the lexer only" if "first" in w[1] else "the reference only"), site=site)
            extra = sorted(set(cur["regex"]) - set(ref["regex"]))
            ctx.ob("R12.10", "patterns-closed|" + short, not extra, "no pattern token beyond the reviewed ones" if not extra else
                   "pattern token(s) %s have no reviewed language" % extra, site=site, nontrivial=False)
        except rx.Unsupported as e:
            ctx.lost("R12.10", "regex syntax outside the supported subset in %s: %s" % (enum, e))
    ctx.floor("R12.10", 8)


def display_table(ctx):
    """variant -> Display text, from the switch in <Token as Display>::fmt."""
    db, prov = ctx.db, ctx.prov
    f = None
    for k, fn in db.fns.items():
        if k.startswith("wac_parser::<lexer::Token as core::fmt::Display>::fmt") and "{closure" not in k:
            f = fn
    if f is None:
        return None
    cfg = CFG(f)
    from fmtdecode import arguments_text
    out = {}
    for b in f.blocks:
        if b.term.k != "switch":
            continue
        for val, tg in b.term.j["targets"]:
            name = db.variant_by_discr("wac_parser::lexer::Token", val)
            if name is None:
                continue
            # first call with text on the straight line from tg
            x = tg
            for _ in range(6):
                t = cfg.blocks[x].term
                if t.k == "call":
                    txt = ""
                    for a in t.args:
                        v = a.const_value()
                        if v and v[0] == "str":
                            txt = v[1]
                    if not txt and t.args:
                        for a in t.args:
                            tx = arguments_text(prov, f, a)
                            if tx:
                                txt = tx
                    if txt:
                        out.setdefault(name, txt)
                        break
                su = cfg.succ[x]
                if len(su) != 1:
                    break
                x = su[0]
    return out


def language_md_keywords(ctx):
    p = os.path.join(repo_root(ctx), "LANGUAGE.md")
    if not os.path.exists(p):
        return None
    txt = open(p).read()
    m = re.search(r"keyword\s*::=\s*(.*?)\n\s*\n", txt, re.S)
    if not m:
        return None
    return set(re.findall(r"'([a-z0-9]+)'", m.group(1)))


def run(ctx):
    db, prov = ctx.db, ctx.prov
    # ---------------- R12.3
    attrs = token_attrs(ctx)
    disp = display_table(ctx) or {}
    variants = db.variants("wac_parser::lexer::Token")
    ctx.ob("R12.3", "anchor", len(attrs) >= 60 and len(disp) >= 60, "token attributes read: %d, Display arms read: %d, variants: %d" % (len(attrs), len(disp), len(variants)), nontrivial=False)
    kws = set()
    seen = {}
    for v in variants:
        a = attrs.get(v)
        d = disp.get(v, "")
        if a is None:
            ctx.ob("R12.3", "token|" + v, False, "no #[token]/#[regex] attribute found for variant %s" % v)
            continue
        kind, lit = a
        if kind == "regex":
            ctx.ob("R12.3", "token|" + v, True, "pattern token (regex `%s`), Display `%s`" % (lit[:40], d), nontrivial=False)
            continue
        m = re.search(r"`([^`]+)`", d)
        shown = m.group(1) if m else None
        ok = True
        why = "spelling `%s` agrees with the Display table" % lit
        if v.endswith("Keyword"):
            conv = v[:-len("Keyword")].lower()
            kws.add(lit)
            if lit != conv:
                ok = False
                why = "keyword token %s is spelled `%s` (variant name says `%s`)" % (v, lit, conv)
        if ok and shown is not None and shown != lit:
            ok = False
            why = "token %s is lexed as `%s` but displayed as `%s`" % (v, lit, shown)
        if ok and lit in seen:
            ok = False
            why = "spelling `%s` is shared by %s and %s" % (lit, seen[lit], v)
        seen.setdefault(lit, v)
        ctx.ob("R12.3", "token|" + v, ok, why, site=db.adt("wac_parser::lexer::Token")["span"])
    doc_kws = language_md_keywords(ctx)
    if doc_kws:
        missing = sorted(doc_kws - kws)
        extra = sorted(kws - doc_kws)
        ctx.ob("R12.3", "keywords-vs-LANGUAGE.md", not missing and not extra,
               "the lexer's keyword set equals LANGUAGE.md's `keyword` production (%d keywords)" % len(kws) if not missing and not extra else
               "keyword sets differ: documented but not lexed %s; lexed but not documented %s" % (missing, extra))
    ctx.floor("R12.3", 60)

    screening(ctx)
    versions_and_paths(ctx)
    whole_input(ctx)
    delimited(ctx)
    comment_scanner(ctx)
    lexical(ctx)
    import c12_grammar
    c12_grammar.run(ctx)


# ---------------------------------------------------------------------------------------------------------
def interval_ai(ctx, f, ch_locals):
    """abstract interpretation of f over the set of code points held by the locals in ch_locals:
    returns {block: set-of-intervals reaching it} with switch/compare refinement on constants."""
    prov = ctx.prov
    cfg = CFG(f)
    d = prov.defs(f)
    full = [(0, MAXCP)]

    def norm(iv):
        iv = sorted((a, b) for a, b in iv if a < b)
        out = []
        for a, b in iv:
            if out and a <= out[-1][1]:
                out[-1] = (out[-1][0], max(out[-1][1], b))
            else:
                out.append((a, b))
        return out

    def inter(x, y):
        out = []
        for a, b in x:
            for c, e in y:
                lo, hi = max(a, c), min(b, e)
                if lo < hi:
                    out.append((lo, hi))
        return norm(out)

    def minus(x, y):
        out = x
        for c, e in y:
            nxt = []
            for a, b in out:
                if e <= a or c >= b:
                    nxt.append((a, b))
                else:
                    if a < c:
                        nxt.append((a, c))
                    if e < b:
                        nxt.append((e, b))
            out = nxt
        return norm(out)

    def is_ch(op):
        """operand is (a copy of / cast of) the char"""
        if op.place is None or op.place.proj:
            return False
        l = op.place.local
        for _ in range(6):
            if l in ch_locals:
                return True
            ds = [x for x in d.defs.get(l, ()) if x[0] == "stmt"]
            if len(ds) != 1:
                return False
            rv = ds[0][1].rv
            if rv.k in ("use", "cast") and rv.ops[0].place is not None and not rv.ops[0].place.proj:
                l = rv.ops[0].place.local
            else:
                return False
        return False

    # boolean locals defined by a comparison of ch with a constant: local -> (op, const)
    cmpdef = {}
    for s in f.stmts():
        if s.rv.k == "bin" and s.rv.op in ("Lt", "Le", "Gt", "Ge", "Eq", "Ne") and not s.lhs.proj:
            a, b = s.rv.ops
            ca, cb = a.const_value(), b.const_value()
            if is_ch(a) and cb and cb[0] in ("char", "int", "bits"):
                cmpdef[s.lhs.local] = (s.rv.op, cb[1])
            elif is_ch(b) and ca and ca[0] in ("char", "int", "bits"):
                flip = {"Lt": "Gt", "Le": "Ge", "Gt": "Lt", "Ge": "Le", "Eq": "Eq", "Ne": "Ne"}[s.rv.op]
                cmpdef[s.lhs.local] = (flip, ca[1])

    def true_set(op, c):
        return {"Lt": [(0, c)], "Le": [(0, c + 1)], "Gt": [(c + 1, MAXCP)], "Ge": [(c, MAXCP)], "Eq": [(c, c + 1)], "Ne": [(0, c), (c + 1, MAXCP)]}[op]

    state = {}
    return cfg, d, full, norm, inter, minus, is_ch, cmpdef, true_set


def screening(ctx):
    db, prov = ctx.db, ctx.prov
    f = db.fn(LEX + "detect_invalid_input")
    ctx.touch(f)
    cfg, d, full, norm, inter, minus, is_ch, cmpdef, true_set = interval_ai(ctx, f, set())
    # the char: second component of the item yielded by char_indices().next()
    ch_locals = set()
    for s in f.stmts():
        if f.local_ty(s.lhs.local) == "char" and not s.lhs.proj and s.rv.k == "use" and s.rv.ops[0].place is not None and s.rv.ops[0].place.proj:
            sl = prov.slice(f, s.rv.ops[0])
            if sl.has_call("CharIndices") or sl.has_call("char_indices"):
                ch_locals.add(s.lhs.local)
    ctx.ob("R12.4", "anchor", len(ch_locals) >= 1, "char local(s) of the char_indices loop: %s" % sorted(ch_locals), nontrivial=False)
    if not ch_locals:
        return
    cfg, d, full, norm, inter, minus, is_ch, cmpdef, true_set = interval_ai(ctx, f, ch_locals)
    # entry of the per-char analysis: the block that defines ch
    start = min(s.bb for s in f.stmts() if s.lhs.local in ch_locals and not s.lhs.proj)
    reach = {start: full}
    work = [start]
    loop_next = {t.bb for t in f.calls() if (t.path or "").endswith("::next")}
    while work:
        b = work.pop()
        cur = reach[b]
        t = cfg.blocks[b].term
        outs = []
        if t.k == "switch":
            op = Operand(t.j["discr"])
            if is_ch(op):
                rest = cur
                for v, tg in t.j["targets"]:
                    outs.append((tg, inter(cur, [(v, v + 1)])))
                    rest = minus(rest, [(v, v + 1)])
                outs.append((t.j["otherwise"], rest))
            elif op.place is not None and not op.place.proj and op.place.local in cmpdef:
                o, c = cmpdef[op.place.local]
                ts = true_set(o, c)
                for v, tg in t.j["targets"]:
                    outs.append((tg, inter(cur, ts) if v != 0 else minus(cur, ts)))
                # `otherwise` = any value not listed: for a bool with only [0 -> x] listed, otherwise = true
                listed = {v for v, _ in t.j["targets"]}
                outs.append((t.j["otherwise"], inter(cur, ts) if 0 in listed else minus(cur, ts)))
            else:
                for s_ in cfg.succ[b]:
                    outs.append((s_, cur))
        else:
            for s_ in cfg.succ[b]:
                outs.append((s_, cur))
        for tg, iv in outs:
            if tg in loop_next or not iv:
                continue
            old = reach.get(tg, [])
            new = norm(old + iv)
            if new != old:
                reach[tg] = new
                work.append(tg)

    def as_set(iv, cap=200000):
        out = set()
        for a, b in iv:
            if b - a > cap:
                return None
            out |= set(range(a, b))
        return out
    errs = {}
    for s in f.stmts():
        if s.rv.k == "agg" and s.rv.j.get("adt", "").endswith("lexer::Error"):
            errs.setdefault(s.rv.j["variant"], []).extend(reach.get(s.bb, []))
    bidi = as_set(norm(errs.get("DisallowedBidirectionalOverride", [])))
    disc = as_set(norm(errs.get("DiscouragedUnicodeCodepoint", [])))
    ctx.ob("R12.4", "bidi-set", bidi == BIDI,
           "exactly U+202A–202E and U+2066–2069 reach the bidirectional-override error" if bidi == BIDI else
           "code points reaching the bidi error differ from U+202A–202E ∪ U+2066–2069: missing %s, extra %s" % (
               sorted(hex(x) for x in (BIDI - (bidi or set()))), sorted(hex(x) for x in ((bidi or set()) - BIDI))[:8]), site=f.span)
    ctx.ob("R12.4", "discouraged-set", disc == DISC,
           "exactly the eight deprecated/discouraged code points reach the discouraged-codepoint error" if disc == DISC else
           "code points reaching the discouraged error differ: missing %s, extra %s" % (sorted(hex(x) for x in (DISC - (disc or set()))), sorted(hex(x) for x in ((disc or set()) - DISC))[:8]), site=f.span)
    # control test: everything except the exempted and the two error sets reaches is_control
    ctl = [t for t in f.calls() if (t.path or "").endswith("char::methods::<impl char>::is_control") or (t.path or "").endswith("::is_control")]
    okc = False
    whyc = "no is_control test found"
    if ctl:
        got = norm(sum((reach.get(t.bb, []) for t in ctl), []))
        want = minus(full, [(9, 11), (13, 14)] + [(x, x + 1) for x in BIDI | DISC])
        okc = got == norm(want)
        whyc = "every code point other than TAB, LF, CR and the two error sets is tested with is_control" if okc else \
            "the control-character test is bypassed for %s" % [(hex(a), hex(b - 1)) for a, b in minus(want, got)][:6]
        # its true edge builds DisallowedControlCode
        sw = switch_after(cfg, ctl[0])
        if okc and sw is not None:
            tt, ft = true_false_targets(sw)
            dc = [s for s in f.stmts() if s.rv.k == "agg" and s.rv.j.get("variant") == "DisallowedControlCode"]
            okc = bool(dc) and all(any(cfg.dominates(x, s.bb) for x in tt) for s in dc)
            if not okc:
                whyc = "a control character does not lead to DisallowedControlCode"
    ctx.ob("R12.4", "control-set", okc, whyc, site=f.span)
    # spans: (offset, len_utf8)
    for t in f.calls():
        if (t.path or "").endswith("::SourceSpan::new"):
            s1 = prov.slice(f, t.args[1])
            s0 = prov.slice(f, t.args[0])
            ok = s1.has_call("len_utf8") and not any(k == "int" and v != 0 for k, v in s1.consts) and (s0.has_call("char_indices") or s0.has_call("CharIndices"))
            ctx.ob("R12.4", "span@%d" % ordinal(f, t), ok, "error span is (char offset, len_utf8 of the character)" if ok else
                   "error span is not (offset, ch.len_utf8()): it can end inside a multi-byte character", site="%s in %s" % (t.span, f.id))
    # dominance over lexing
    for g in db.fns.values():
        if g.crate != "wac_parser":
            continue
        lx = [t for t in g.calls() if (t.declared or "").endswith("logos::Logos::lexer") or (t.path or "").endswith("Logos>::lexer") or (t.path or "").endswith("logos::lexer::Lexer::new")]
        if not lx or g.from_expansion:
            continue
        cg = CFG(g)
        for t in lx:
            det = [c for c in g.calls() if c.path == LEX + "detect_invalid_input" and cg.dominates(c.bb, t.bb)]
            okd = bool(det)
            if okd:
                # success edge of `?`
                okd = t.bb not in error_blocks(g)
            ctx.ob("R12.4", "screen-before-lex|" + g.id.split("::", 1)[1], okd,
                   "the token stream is created only after detect_invalid_input accepted the whole source" if okd else
                   "a token stream is created without screening the source first", site="%s in %s" % (t.span, g.id))
    ctx.floor("R12.4", 5)   # anchor, three sets, >=1 span site, >=1 lexer creation (a shared error return has one span site)


def versions_and_paths(ctx):
    db, prov = ctx.db, ctx.prov
    n = 0
    for f in db.fns.values():
        if not re.match(r"wac_parser::<ast::import::Package(Path|Name)<'a> as ast::Parse<'a>>::parse$", f.id):
            continue
        n += 1
        ctx.touch(f)
        bodies = db.with_closures(f)
        name = "PackagePath" if "PackagePath" in f.id else "PackageName"
        parses = [(b, t) for b in bodies for t in b.calls() if (t.declared or "").endswith("str::parse") or (t.path or "").endswith("semver::Version::parse") or (t.path or "").endswith("FromStr>::from_str")]
        sem = [(b, t) for b, t in parses if any("semver::Version" in a for a in t.gen_args) or "semver" in (t.path or "")]
        inv = [(b, s) for b in bodies for s in b.stmts() if s.rv.k == "agg" and s.rv.j.get("variant") == "InvalidVersion"]
        ok = bool(sem) and bool(inv)
        ctx.ob("R12.5", "semver|" + name, ok, "the text after `@` is parsed with semver::Version and a failure becomes InvalidVersion" if ok else
               "version text is not validated with semver (parse sites=%d, InvalidVersion sites=%d)" % (len(sem), len(inv)), site=f.span)
        # splitting: str::find with '/' and '@' (first occurrence), never rfind / rsplit
        finds = [(b, t) for b in bodies for t in b.calls() if (t.path or "").startswith("core::str::") and t.path.rsplit("::", 1)[1] in
                 ("find", "rfind", "split_once", "rsplit_once", "rsplit", "rsplitn", "splitn", "split")]
        bad = [t.path.rsplit("::", 1)[1] for b, t in finds if t.path.rsplit("::", 1)[1] in ("rfind", "rsplit_once", "rsplit", "rsplitn")]
        pats = {t.args[1].const_value() for b, t in finds if len(t.args) > 1}
        need = {("char", ord("@"))} | ({("char", ord("/"))} if name == "PackagePath" else set())
        ok2 = not bad and need <= pats
        ctx.ob("R12.5", "split|" + name, ok2, "name/segments/version are split at the first `/` and the first `@`" if ok2 else
               "the token is split with %s (patterns %s): a path with several segments is split at the wrong separator" % (bad or "find", sorted(map(str, pats))), site=f.span)
    ctx.ob("R12.5", "count", n == 2, "version-carrying productions: %d" % n, nontrivial=False)


def whole_input(ctx):
    db, prov = ctx.db, ctx.prov
    f = db.fn("wac_parser::ast::Document::parse")
    ctx.touch(f)
    cfg = CFG(f)
    peeks = [t for t in f.calls() if t.path == LEX + "Lexer::peek" and cfg.reaches(t.bb, t.bb)]
    stmts = [t for t in f.calls() if "Statement" in (t.path or "") and (t.path or "").endswith("Parse<'a>>::parse")]
    ok = bool(peeks) and bool(stmts) and all(cfg.reaches(s.bb, s.bb) for s in stmts)
    # the loop exits only on peek() == None
    if ok:
        p = peeks[0]
        isn = [t for t in f.calls() if (t.path or "").endswith(("Option::is_some", "Option::is_none")) and any(x is p for _, x in prov.slice(f, t.args[0]).calls)]
        ok = bool(isn)
    ctx.ob("R12.6", "statement-loop", ok, "statements are parsed in a loop that runs until peek() is None" if ok else
           "the statement loop does not run until end of input", site=f.span)
    fin = [t for t in f.calls() if "lexer::Lexer" in (t.path or "") and (t.path or "").endswith("::next") and not cfg.reaches(t.bb, t.bb)]
    ctx.ob("R12.6", "eof-assert", bool(fin), "end of input is asserted after the loop" if fin else "no end-of-input assertion after the statement loop", nontrivial=False)


def delimited(ctx):
    """R12.7: in parse_delimited the separator is required only between items (not after the last), and only when with_commas."""
    db, prov = ctx.db, ctx.prov
    f = db.fn("wac_parser::ast::parse_delimited")
    ctx.touch(f)
    cfg = CFG(f)
    commas = [t for t in f.calls() if t.path == "wac_parser::ast::parse_token" and prov.const_of(f, t.args[1]) == ("variant", "wac_parser::lexer::Token", "Comma")]
    ctx.ob("R12.7", "anchor", len(commas) == 1, "separator consumption sites in parse_delimited: %d" % len(commas), nontrivial=False)
    for t in commas:
        # guarded by with_commas (param 3)
        g1 = False
        g2 = False
        for b in f.blocks:
            if b.term.k != "switch":
                continue
            op = Operand(b.term.j["discr"])
            sl = prov.slice(f, op)
            tt, ft = true_false_targets(b.term)
            if any(i == 3 for fid, i in sl.params) and not sl.calls:
                if any(cfg.dominates(x, t.bb) for x in tt) and not any(cfg.dominates(x, t.bb) for x in ft):
                    g1 = True
            # `next == until` false edge
            if any(i == 2 for fid, i in sl.params) and (sl.has_call("Lexer::peek") or sl.has_call("PartialEq")):
                if any(cfg.dominates(x, t.bb) for x in ft) and not any(cfg.dominates(x, t.bb) for x in tt):
                    g2 = True
        ctx.ob("R12.7", "comma-only-with-commas", g1, "the separator is consumed only when with_commas is set" if g1 else "separator consumption is not guarded by with_commas", site=t.span)
        ctx.ob("R12.7", "trailing-comma-optional", g2, "the separator is required only when the next token is not the closing delimiter (trailing separator optional)" if g2 else
               "the separator is required even before the closing delimiter (trailing separator became mandatory) or is never required", site=t.span)
    # the item parse is preceded by the until-test and the item Peek
    pk = [t for t in f.calls() if (t.declared or "").endswith("ast::Peek::peek")]
    it = [t for t in f.calls() if (t.declared or "").endswith("ast::Parse::parse")]
    ok = bool(pk) and bool(it) and all(any(cfg.dominates(p.bb, i.bb) for p in pk) for i in it)
    ctx.ob("R12.7", "peek-before-item", ok, "an item is parsed only after T::peek accepted the next token" if ok else "items are parsed without the Peek test", site=f.span)


def comment_scanner(ctx):
    """R12.9: block_comment_length: every arm that changes the nesting depth also consumes the second delimiter byte."""
    db, prov = ctx.db, ctx.prov
    f = db.fns.get("wac_parser::lexer::helpers::block_comment_length")
    if f is None:
        ctx.lost("R12.9", "block_comment_length")
        return
    ctx.touch(f)
    cfg = CFG(f)
    depth = [l for l, n in ((int(k), v) for k, v in f.names.items() if k.isdigit()) if n == "depth"]
    changes = []
    for s in f.stmts():
        if s.rv.k == "bin" and s.rv.op in ("Add", "Sub", "AddWithOverflow", "SubWithOverflow") and any(o.place is not None and o.place.local in depth for o in s.rv.ops):
            changes.append(s)
    ctx.ob("R12.9", "anchor", len(changes) >= 2 and bool(depth), "depth updates found: %d" % len(changes), nontrivial=False)
    nexts = [t for t in f.calls() if (t.path or "").endswith("::next")]
    adv2 = [s for s in f.stmts() if s.rv.k == "bin" and s.rv.op.startswith("Add") and any(o.const_value() == ("int", 2) for o in s.rv.ops)]
    hdrs = [t.bb for t in nexts if cfg.reaches(t.bb, t.bb)]
    for i, s in enumerate(changes):
        # on every path from the depth change back to the loop head, the iterator is advanced once more (or an index by 2)
        ok = False
        for h in hdrs:
            inner = [t.bb for t in nexts if t.bb != h or True]
            # a next() call strictly after s.bb on all paths to the first header
            cand = [t.bb for t in nexts if t.bb != s.bb and cfg.dominates(s.bb, t.bb)]
            first_hdr = min(hdrs)
            if cand and cfg.must_pass(cand, src=s.bb, dsts={first_hdr}):
                ok = True
        if not ok and adv2:
            ok = any(cfg.dominates(s.bb, a.bb) or cfg.dominates(a.bb, s.bb) for a in adv2)
        ctx.ob("R12.9", "consume-delimiter@%d" % i, ok, "the second byte of a `/*` / `*/` delimiter is consumed together with the first" if ok else
               "a nesting-depth change does not consume the delimiter's second byte: overlapping delimiters such as `/*/` or `*/*` are counted twice",
               site="%s in %s" % (s.span, f.id))
    # peek-based recognition: both delimiter arms look at the following byte
    pk = [t for t in f.calls() if (t.path or "").endswith("Peekable::peek") or (t.path or "").endswith("::peek")]
    ctx.ob("R12.9", "lookahead", len(pk) >= 2 or bool(adv2), "delimiters are recognised with one byte of lookahead (%d peeks)" % len(pk) if len(pk) >= 2 or adv2 else
           "no one-byte lookahead in the comment scanner", site=f.span)


def ordinal(f, t):
    k = 0
    for c in f.calls():
        if c is t:
            return k
        if c.path == t.path:
            k += 1
    return k
