"""Character-level regular languages for the lexer's #[regex]/#[logos(skip)] attributes.

A small regex front end (the subset logos accepts and this lexer uses: literals, escapes, classes with ranges and
negation, groups, alternation, `* + ?` (greedy or lazy), `(?&name)` subpattern references) -> Thompson NFA over
code-point intervals -> DFA over the coarsest common alphabet partition -> language equivalence with a shortest
distinguishing string.  Unsupported syntax raises Unsupported (callers fail closed)."""
from collections import deque

MAXCP = 0x10FFFF


class Unsupported(Exception):
    pass


ESC = {"n": "\n", "t": "\t", "r": "\r", "f": "\x0c", "0": "\0"}


def _norm(iv):
    iv = sorted(iv)
    out = []
    for a, b in iv:
        if out and a <= out[-1][1] + 1:
            out[-1] = (out[-1][0], max(out[-1][1], b))
        else:
            out.append((a, b))
    return tuple(out)


def _neg(iv):
    out = []
    p = 0
    for a, b in _norm(iv):
        if a > p:
            out.append((p, a - 1))
        p = b + 1
    if p <= MAXCP:
        out.append((p, MAXCP))
    return tuple(out)


class P:
    def __init__(self, s, subs):
        self.s = s
        self.i = 0
        self.subs = subs

    def peek(self):
        return self.s[self.i] if self.i < len(self.s) else None

    def eat(self):
        c = self.s[self.i]
        self.i += 1
        return c

    def alt(self):
        xs = [self.seq()]
        while self.peek() == "|":
            self.eat()
            xs.append(self.seq())
        return xs[0] if len(xs) == 1 else ("alt", xs)

    def seq(self):
        xs = []
        while self.peek() is not None and self.peek() not in "|)":
            xs.append(self.rep())
        return ("seq", xs)

    def rep(self):
        a = self.atom()
        while self.peek() in ("*", "+", "?"):
            op = self.eat()
            if self.peek() == "?":      # lazy: same language
                self.eat()
            a = ({"*": "star", "+": "plus", "?": "opt"}[op], a)
        if self.peek() == "{":
            raise Unsupported("counted repetition")
        return a

    def esc(self):
        c = self.eat()
        if c in ESC:
            return ord(ESC[c])
        if c in "dDwWsSbBpPxuAzZ":
            raise Unsupported("escape \\" + c)
        return ord(c)

    def atom(self):
        c = self.eat()
        if c == "(":
            if self.s.startswith("?&", self.i):
                j = self.s.index(")", self.i)
                name = self.s[self.i + 2:j]
                self.i = j + 1
                if name not in self.subs:
                    raise Unsupported("unknown subpattern " + name)
                return self.subs[name]
            if self.s.startswith("?:", self.i):
                self.i += 2
            elif self.peek() == "?":
                raise Unsupported("group flags")
            a = self.alt()
            if self.peek() != ")":
                raise Unsupported("unbalanced group")
            self.eat()
            return a
        if c == "[":
            neg = False
            if self.peek() == "^":
                self.eat()
                neg = True
            iv = []
            first = True
            while True:
                if self.peek() is None:
                    raise Unsupported("unterminated class")
                if self.peek() == "]" and not first:
                    self.eat()
                    break
                first = False
                x = self.eat()
                if x == "[":
                    raise Unsupported("nested class")
                a = self.esc() if x == "\\" else ord(x)
                if self.peek() == "-" and self.i + 1 < len(self.s) and self.s[self.i + 1] != "]":
                    self.eat()
                    y = self.eat()
                    b = self.esc() if y == "\\" else ord(y)
                    if b < a:
                        raise Unsupported("reversed range")
                    iv.append((a, b))
                else:
                    iv.append((a, a))
            return ("set", _neg(iv) if neg else _norm(iv))
        if c == ".":
            return ("set", _neg([(10, 10)]))
        if c == "\\":
            a = self.esc()
            return ("set", ((a, a),))
        if c in "^$":
            raise Unsupported("anchor")
        return ("set", ((ord(c), ord(c)),))


def parse(rx, subs=None):
    p = P(rx, subs or {})
    a = p.alt()
    if p.i != len(rx):
        raise Unsupported("trailing input at %d in %r" % (p.i, rx))
    return a


def literal(s):
    return ("seq", [("set", ((ord(c), ord(c)),)) for c in s])


class NFA:
    def __init__(self):
        self.eps = []
        self.tr = []

    def new(self):
        self.eps.append([])
        self.tr.append([])
        return len(self.eps) - 1

    def build(self, a, s, t):
        k = a[0]
        if k == "set":
            self.tr[s].append((a[1], t))
        elif k == "seq":
            cur = s
            for x in a[1]:
                n = self.new()
                self.build(x, cur, n)
                cur = n
            self.eps[cur].append(t)
        elif k == "alt":
            for x in a[1]:
                self.build(x, s, t)
        elif k in ("star", "plus", "opt"):
            i, o = self.new(), self.new()
            self.eps[s].append(i)
            self.build(a[1], i, o)
            self.eps[o].append(t)
            if k != "opt":
                self.eps[o].append(i)
            if k != "plus":
                self.eps[s].append(t)


def atoms_of(asts):
    cuts = {0, MAXCP + 1}

    def walk(a):
        if a[0] == "set":
            for x, y in a[1]:
                cuts.add(x)
                cuts.add(y + 1)
        elif a[0] in ("seq", "alt"):
            for x in a[1]:
                walk(x)
        else:
            walk(a[1])
    for a in asts:
        walk(a)
    cs = sorted(cuts)
    return [(cs[i], cs[i + 1] - 1) for i in range(len(cs) - 1)]


def dfa(ast, atoms):
    n = NFA()
    s, t = n.new(), n.new()
    n.build(ast, s, t)

    def close(S):
        st = list(S)
        S = set(S)
        while st:
            x = st.pop()
            for y in n.eps[x]:
                if y not in S:
                    S.add(y)
                    st.append(y)
        return frozenset(S)
    start = close({s})
    ids = {start: 0}
    trans = [{}]
    acc = [t in start]
    q = deque([start])
    while q:
        S = q.popleft()
        for ai, (lo, hi) in enumerate(atoms):
            T = set()
            for x in S:
                for iv, y in n.tr[x]:
                    if any(a <= lo and hi <= b for a, b in iv):
                        T.add(y)
            if not T:
                continue
            T = close(T)
            if T not in ids:
                ids[T] = len(trans)
                trans.append({})
                acc.append(t in T)
                q.append(T)
            trans[ids[S]][ai] = ids[T]
    return trans, acc


def show(cp):
    c = chr(cp)
    if c == "\n":
        return "\\n"
    if c == "\t":
        return "\\t"
    if c == "\r":
        return "\\r"
    if 32 <= cp < 127:
        return c
    return "\\u{%x}" % cp


def rep(lo, hi):
    """a printable representative of an atom when there is one"""
    for cp in (ord("x"), ord("X"), ord("5"), ord("~")):
        if lo <= cp <= hi:
            return cp
    return lo


def equivalent(rx_a, rx_b, subs_a=None, subs_b=None):
    """(True, None) or (False, (word, 'only the first accepts'|'only the second accepts'))"""
    A, B = (rx_a if isinstance(rx_a, tuple) else parse(rx_a, subs_a)), (rx_b if isinstance(rx_b, tuple) else parse(rx_b, subs_b))
    atoms = atoms_of([A, B])
    ta, aa = dfa(A, atoms)
    tb, ab = dfa(B, atoms)
    start = (0, 0)
    seen = {start: None}
    q = deque([start])
    while q:
        x, y = q.popleft()
        fa = aa[x] if x is not None else False
        fb = ab[y] if y is not None else False
        if fa != fb:
            w = []
            k = (x, y)
            while seen[k] is not None:
                k, ai = seen[k]
                w.append(show(rep(*atoms[ai])))
            return False, ("".join(reversed(w)), "only the first accepts" if fa else "only the second accepts")
        for ai in range(len(atoms)):
            nx = ta[x].get(ai) if x is not None else None
            ny = tb[y].get(ai) if y is not None else None
            if nx is None and ny is None:
                continue
            k = (nx, ny)
            if k not in seen:
                seen[k] = ((x, y), ai)
                q.append(k)
    return True, None


def subpatterns(defs):
    """[(name, regex)] in declaration order -> {name: ast}"""
    subs = {}
    for n, r in defs:
        subs[n] = parse(r, subs)
    return subs


if __name__ == "__main__":
    print(equivalent(r"//[^\n]*", r"//[^\n]*\n"))
    print(equivalent(r"//[^\n]*", r"/(/)([^\n])*?"))
    print(equivalent(r"[a-z][a-z0-9]*|[A-Z][A-Z0-9]*", r"[a-z][0-9a-z]*|[A-Z][0-9A-Z]*"))
