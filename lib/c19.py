"""C19 — the CLI does what the library does with the flags as documented (structural part)."""
from cfg import CFG, error_blocks
from prov import narrow
from pat import *
from facts import Operand, strip_generics
import tables, c18

EXPLANATION = ("provenance and dominance rules over the CLI command bodies (async, analysed before the coroutine transform): "
               "EncodeOptions.define_components = !import_dependencies and validate = !no_validate; the bytes written to the file or "
               "stdout are the encode result (through print_bytes with -t) and nothing creates or writes the output before encoding "
               "succeeded; main maps every error to a diagnostic plus exit(1) and each subcommand to its own exec; --deps-dir/--dep/"
               "--registry reach the package resolver and parse/resolve errors go through fmt_err with the same path and source; "
               "plug package names are derived from the same string that groups duplicate plugs; `wac targets --world` selects the "
               "named world and the only-world shortcut applies only without --world. Necessary conditions; equality of CLI and "
               "library output is not decided")

CLI = "wac_cli::commands::"
NORMALISERS = ("str::to_lowercase", "str::to_uppercase", "to_ascii_lowercase", "to_ascii_uppercase", "str::trim", "str::replace", "str::trim_start", "str::trim_end")
CREATE = ("std::fs::write", "std::fs::File::create", "std::fs::OpenOptions::open", "std::fs::File::create_new", "std::fs::File::options", "std::fs::remove_file", "std::fs::rename")


def body(db, name):
    """the coroutine body of an async exec (closure#0) or the fn itself."""
    fs = [f for k, f in db.fns.items() if k.startswith(name + "::{closure#0}") and k.count("{closure") == 1]
    return fs[0] if fs else db.fn(name)


def run(ctx):
    db, prov = ctx.db, ctx.prov
    compose(ctx)
    main_dispatch(ctx)
    plug_names(ctx)
    targets_world(ctx)
    c18.check_cli_resolver(ctx_rule(ctx, "R19.4"))
    output_files(ctx)
    key_value_flags(ctx)
    package_ref_parse(ctx)


def package_ref_parse(ctx):
    """R19.4 `plug-ref`: an argument of `wac plug` is a registry reference only if its part before `@` is a valid package name;
    only then can a bad version be an error — otherwise it is a local path (which may well contain `@`).  The `invalid
    version` error is constructed only under the Ok edge of PackageName::new."""
    db, prov = ctx.db, ctx.prov
    n = 0
    for f in db.fns.values():
        if f.crate not in ("wac_cli", "wac.bin") or "PackageRef" not in f.id or "from_str" not in f.id:
            continue
        cfg = CFG(f)
        names = [t for t in f.calls() if (t.path or "").endswith("PackageName::new")]
        bails = [t for t in f.calls() if "anyhow" in (t.path or "") and any("bail" in m or "anyhow" in m for m in t.mac)]
        if not names or not bails:
            continue
        import tables
        ok_targets = set()
        for b in f.blocks:
            if b.term.k != "switch":
                continue
            sl = prov.slice(f, Operand(b.term.j["discr"]))
            if any(x in names for _, x in sl.calls) and any(a.endswith("result::Result") for a in sl.discr):
                for v, tg in b.term.j["targets"]:
                    if v == 0:
                        ok_targets.add(tg)
        for t in bails:
            n += 1
            ok = any(cfg.dominates(x, t.bb) for x in ok_targets)
            ctx.ob("R19.4", "plug-ref|invalid-version-needs-valid-name", ok,
                   "`invalid version` is reported only when the part before `@` is a package name" if ok else
                   "`invalid version` can be reported although the part before `@` is not a package name: a local path that contains `@` is rejected instead of being used as a path",
                   site="%s in %s" % (t.span, f.id))
    ctx.ob("R19.4", "plug-ref-sites", n >= 1, "version errors in PackageRef::from_str: %d" % n, nontrivial=False)


def output_files(ctx):
    """R19.2 `truncating-sink`: the output file holds exactly the bytes written: it is produced by a truncating primitive
    (`fs::write`, `File::create`) — an `OpenOptions` chain must ask for `truncate(true)` (or `create_new`), otherwise the tail
    of a longer previous file survives behind the new component."""
    db, prov = ctx.db, ctx.prov
    n = 0
    for f in db.fns.values():
        if f.crate not in ("wac_cli", "wac.bin") or f.from_expansion:
            continue
        for t in f.calls():
            p = t.path or ""
            if p.endswith("fs::OpenOptions::open"):
                n += 1
                sl = prov.slice(f, t.args[0], follow_mut=True)
                trunc = [c for _, c in sl.calls if (c.path or "").endswith(("OpenOptions::truncate", "OpenOptions::create_new"))]
                ok = any(c.args[1].const_value() == ("bool", True) for c in trunc)
                append = any((c.path or "").endswith("OpenOptions::append") for _, c in sl.calls)
                ctx.ob("R19.2", "truncating-sink|%s@%d" % (f.id.split("::")[-3] if f.id.count("::") > 2 else f.id, ordinal(f, t)), ok and not append,
                       "the file is opened with truncate(true)/create_new(true)" if ok and not append else
                       "an output file is opened for writing without truncation: when the path already holds a longer file, the result is the new bytes followed by the old tail (not the bytes sent to stdout)",
                       site="%s in %s" % (t.span, f.id))
            elif p in ("std::fs::write", "std::fs::File::create"):
                n += 1
                ctx.ob("R19.2", "truncating-sink|%s@%d" % (f.id.split("::")[-3] if f.id.count("::") > 2 else f.id, ordinal(f, t)), True, "written with %s (truncates)" % p, site=t.span)
    ctx.ob("R19.2", "sink-count", n >= 2, "file sinks in the CLI: %d" % n, nontrivial=False)


def key_value_flags(ctx):
    """R19.4 `key-value-split`: `--dep PKG=PATH` style values are split at the FIRST `=` (a package name cannot contain `=`,
    a path can): forward split primitives only."""
    db = ctx.db
    n = 0
    for f in db.fns.values():
        if f.crate not in ("wac_cli", "wac.bin") or f.from_expansion or not f.id.endswith(("::parse", "FromStr>::from_str")):
            continue
        for t in f.calls():
            p = t.path or ""
            nm = p.rsplit("::", 1)[-1]
            if "str" in p and nm in ("split_once", "rsplit_once", "split", "rsplit", "splitn", "rsplitn", "find", "rfind") and t.args[1].const_value() == ("char", ord("=")):
                n += 1
                ok = not nm.startswith("r")
                ctx.ob("R19.4", "key-value-split|" + f.id.split("::", 1)[1], ok, "KEY=VALUE is split at the first `=`" if ok else
                       "KEY=VALUE is split at the LAST `=` (%s): a path containing `=` moves into the key, the override is registered under a name no document can reference" % nm,
                       site="%s in %s" % (t.span, f.id))
    ctx.ob("R19.4", "key-value-sites", n >= 2, "KEY=VALUE parsers: %d" % n, nontrivial=False)


class ctx_rule:
    def __init__(self, ctx, rule):
        self.ctx, self.rule = ctx, rule
        self.db, self.prov = ctx.db, ctx.prov

    def ob(self, rule, key, ok, why, **kw):
        return self.ctx.ob(self.rule, "%s/%s" % (rule, key), ok, why, **kw)

    def touch(self, f):
        self.ctx.touch(f)

    def floor(self, *a):
        pass

    def lost(self, rule, what):
        self.ctx.lost(self.rule, what)


def compose(ctx):
    db, prov = ctx.db, ctx.prov
    f = body(db, CLI + "compose::ComposeCommand::exec")
    ctx.touch(f)
    cfg = CFG(f)
    opts = [s for s in f.stmts() if s.rv.k == "agg" and s.rv.j.get("adt", "").endswith("graph::EncodeOptions")]
    ctx.ob("R19.1", "anchor", len(opts) == 1, "EncodeOptions constructions in compose: %d" % len(opts), nontrivial=False)
    d = prov.defs(f)
    for s in opts:
        ops = dict(zip(s.rv.j["fields"], s.rv.ops))
        for fld, flag in (("define_components", "import_dependencies"), ("validate", "no_validate")):
            o = ops.get(fld)
            negated = False
            src = set()
            if o is not None and o.place is not None:
                for kind, site in d.defs.get(o.place.local, ()):
                    if kind == "stmt" and site.rv.k == "un" and site.rv.op == "Not":
                        negated = True
                        src = direct_fields(prov, f, site.rv.ops[0], "ComposeCommand")
                    elif kind == "stmt":
                        src = direct_fields(prov, f, o, "ComposeCommand")
            ok = negated and src == {flag}
            ctx.ob("R19.1", "option|" + fld, ok, "EncodeOptions.%s = !self.%s" % (fld, flag) if ok else
                   "EncodeOptions.%s is %s%s (expected !%s)" % (fld, "!" if negated else "", sorted(src), flag), site=s.span)
    enc = [t for t in f.calls() if (t.path or "").endswith("resolution::Resolution::encode")]
    ctx.ob("R19.2", "anchor", len(enc) == 1, "encode call sites: %d" % len(enc), nontrivial=False)
    if enc:
        e = enc[0]
        errs = error_blocks(f)
        for t in f.calls():
            p = t.path or ""
            if p.startswith(CREATE) or p.endswith(("Write>::write_all", "Write::write_all", "File::create", "OpenOptions::open")) or p.startswith("std::fs::write"):
                ok = cfg.dominates(e.bb, t.bb) and t.bb not in errs
                ctx.ob("R19.2", "after-encode|%s@%d" % (p.rsplit("::", 1)[1], ordinal(f, t)), ok,
                       "`%s` happens only after encoding succeeded" % p.rsplit("::", 2)[-2:][0] if ok else
                       "`%s` can run before the composition was encoded: a failing run leaves an (empty or truncated) output file behind" % p,
                       site="%s in %s" % (t.span, f.id))
        outs = [t for t in f.calls() if (t.path or "").startswith("std::fs::write") or (t.path or "").endswith(("Write>::write_all", "Write::write_all"))]
        for t in outs:
            sl = prov.slice(f, t.args[-1])
            ok = any(x is e for _, x in sl.calls)
            ctx.ob("R19.2", "bytes|%s@%d" % (t.path.rsplit("::", 1)[1], ordinal(f, t)), ok, "the written bytes are the encode result (text form with -t)" if ok else
                   "the written bytes do not originate in the encode result", site="%s in %s" % (t.span, f.id))
        ctx.ob("R19.2", "outputs", len(outs) == 2, "output sinks (file, stdout): %d" % len(outs), nontrivial=False)
        # `-t` converts the output itself: the text form (print_bytes) can reach *every* sink, the file as well as stdout
        for t in outs:
            sl = prov.slice(f, t.args[-1])
            has_text = sl.has_call("wasmprinter::print_bytes")
            ctx.ob("R19.2", "text-reaches|%s@%d" % (t.path.rsplit("::", 1)[1], ordinal(f, t)), has_text,
                   "with -t this sink receives the text form" if has_text else
                   "this sink can only receive the binary encoding: with `-t` (and this sink) the bytes written differ from what `-t` prints elsewhere", site="%s in %s" % (t.span, f.id))
        pb = [t for t in f.calls() if (t.path or "").endswith("wasmprinter::print_bytes")]
        okp = bool(pb) and all(any(x is e for _, x in prov.slice(f, t.args[0]).calls) for t in pb)
        # guarded by self.wat
        okw = False
        for t in pb:
            for b in f.blocks:
                if b.term.k == "switch" and cfg.dominates(b.idx, t.bb) and prov.slice(f, Operand(b.term.j["discr"])).has_field("wat", "ComposeCommand"):
                    okw = True
        ctx.ob("R19.2", "text-form", okp and okw, "-t prints the text form of that same component" if okp and okw else "print_bytes is not applied to the encoded bytes under `-t`", site=f.span)
    # R19.4 flags reach the resolver, errors go through fmt_err(path, contents)
    pr = [t for t in f.calls() if (t.path or "").endswith("PackageResolver::new")]
    ok = bool(pr) and prov.slice(f, pr[0].args[0]).field_names("ComposeCommand") >= {"deps_dir"} and prov.slice(f, pr[0].args[1]).field_names("ComposeCommand") >= {"deps"} \
        and (len(pr[0].args) < 3 or prov.slice(f, pr[0].args[2]).field_names("ComposeCommand") >= {"registry"})
    ctx.ob("R19.4", "flags-to-resolver", ok, "--deps-dir, --dep and --registry reach PackageResolver::new" if ok else "a dependency flag does not reach the package resolver", site=f.span)
    fe = [(b, t) for b in db.with_closures(f) for t in b.calls() if (t.path or "").endswith("wac_cli::fmt_err")]
    ctx.ob("R19.4", "fmt-err", len(fe) >= 3, "parse, discovery and resolution errors are rendered through fmt_err (%d sites)" % len(fe), site=f.span)


def main_dispatch(ctx):
    db, prov = ctx.db, ctx.prov
    mains = [f for k, f in db.fns.items() if k.startswith("wac::main")]
    ctx.ob("R19.3", "anchor", len(mains) >= 1, "main bodies: %d" % len(mains), nontrivial=False)
    rows = {}
    exits = []
    for f in mains:
        ctx.touch(f)
        for adt, v, callee, sp in tables.enum_to_callee(db, prov, f, "wac_cli::commands::"):
            if adt.endswith("Wac"):
                rows[v] = callee
        for bidx, adt, arms, other in tables.switch_arms(db, prov, f):
            if not adt.endswith("Wac"):
                continue
            cfg = CFG(f)
            for v, tg in arms:
                for x in tables.arm_region(cfg, tg, set(), limit=10):
                    t = cfg.blocks[x].term
                    if t.k == "call" and (t.path or "").startswith("wac_cli::commands::"):
                        rows[v] = t.path
                        break
        exits += [t for t in f.calls() if (t.path or "") == "std::process::exit"]
    for v in ("Plug", "Compose", "Parse", "Resolve", "Targets"):
        p = rows.get(v, "")
        ok = ("::%s::%sCommand::exec" % (v.lower(), v)) in p
        ctx.ob("R19.3", "dispatch|" + v, ok, "`wac %s` runs %sCommand::exec" % (v.lower(), v) if ok else "`wac %s` is dispatched to %s" % (v.lower(), p or "nothing"))
    ok = False
    for f in mains:
        for t in f.calls():
            if t.path == "std::process::exit":
                ok = ok or t.args[0].const_value() == ("int", 1)
    ctx.ob("R19.3", "exit-code", ok, "a failing command prints the error and exits with status 1" if ok else "errors do not lead to exit(1)")


def plug_names(ctx):
    db, prov = ctx.db, ctx.prov
    f = body(db, CLI + "plug::PlugCommand::exec")
    ctx.touch(f)
    reg = [t for t in f.calls() if (t.path or "").endswith("package::Package::from_file")]
    ent = [t for t in f.calls() if (t.path or "").endswith(("IndexMap::entry", "HashMap::entry"))]
    ctx.ob("R19.5", "anchor", len(reg) >= 1 and len(ent) >= 1, "plug registration / grouping sites: %d/%d" % (len(reg), len(ent)), nontrivial=False)
    gk = set()
    for t in ent:
        gk |= {x.path for _, x in prov.slice(f, t.args[1]).calls if (x.path or "").endswith(NORMALISERS)}
    for t in reg:
        sl = prov.slice(f, t.args[0])
        nk = {x.path for _, x in sl.calls if (x.path or "").endswith(NORMALISERS)}
        extra = nk - gk
        ctx.ob("R19.5", "name-equals-group-key", not extra, "the registered plug name is built from the same string that groups duplicate plugs" if not extra else
               "the registered plug name is normalised with %s but the duplicate-detection key is not: two plugs can collide on one package name" % sorted(x.rsplit("::", 1)[1] for x in extra),
               site="%s in %s" % (t.span, f.id))
    # default options, registration order = command-line order (C16)
    enc = [t for t in f.calls() if (t.path or "").endswith("CompositionGraph::encode")]
    okd = bool(enc) and any("EncodeOptions" in (x.path or "") and (x.path or "").endswith("::default") for _, x in prov.slice(f, enc[0].args[1]).calls)
    ctx.ob("R19.5", "plug-default-options", okd, "`wac plug` encodes with the default options" if okd else "`wac plug` does not encode with EncodeOptions::default()", site=f.span)
    cfg = CFG(f)
    for t in f.calls():
        p = t.path or ""
        if p.startswith("std::fs::write") or p.endswith(("Write>::write_all", "Write::write_all")):
            ok = bool(enc) and cfg.dominates(enc[0].bb, t.bb)
            ctx.ob("R19.2", "plug-after-encode|%s@%d" % (p.rsplit("::", 1)[1], ordinal(f, t)), ok, "plug output is written only after encoding succeeded" if ok else "plug output can be written before encoding", site=t.span)


def targets_world(ctx):
    db, prov = ctx.db, ctx.prov
    f = db.fn(CLI + "targets::get_wit_world")
    ctx.touch(f)
    cfg = CFG(f)
    wn = 3
    sw = None
    for b in f.blocks:
        if b.term.k == "switch":
            sl = prov.slice(f, Operand(b.term.j["discr"]))
            if any(i == wn for fid, i in sl.params) and not sl.calls and sw is None:
                sw = b
    if sw is None:
        ctx.lost("R19.6", "switch on world_name")
        return
    some = [tg for v, tg in sw.term.j["targets"] if v == 1]
    none = [tg for v, tg in sw.term.j["targets"] if v == 0] or [sw.term.j["otherwise"]]
    gets = [t for t in f.calls() if (t.path or "").endswith("IndexMap::get") and any(i == wn for fid, i in prov.slice(f, t.args[1]).params)]
    ok1 = bool(gets) and bool(some) and all(any(cfg.dominates(x, t.bb) for x in some) for t in gets)
    ctx.ob("R19.6", "named-world", ok1, "with --world the named world is looked up in the package" if ok1 else "--world is not used to look the world up", site=f.span)
    only = [t for t in f.calls() if (t.path or "").endswith("IndexMap::values") and narrow(prov, f, t.args[0]).has_field("exports", "component::World")]
    # the shortcut `exports.values().next()` for the top-level world must sit on the None edge
    top = [t for t in only if any(i == 2 for fid, i in prov.slice(f, t.args[0]).params)]
    ok2 = bool(top) and all(any(cfg.dominates(x, t.bb) for x in none) and not any(cfg.dominates(x, t.bb) for x in some) for t in top[:1])
    ctx.ob("R19.6", "only-world-shortcut", ok2, "the only-world shortcut applies only when --world is absent" if ok2 else
           "the only-world shortcut is taken even when --world is given: a wrong world name is silently ignored for single-world packages", site=f.span)
    b = body(db, CLI + "targets::TargetsCommand::exec")
    ctx.touch(b)
    vt = [t for t in b.calls() if (t.path or "").endswith("targets::validate_target")]
    ok3 = bool(vt) and any((x.path or "").endswith("get_wit_world") for _, x in prov.slice(b, vt[0].args[1]).calls) and any((x.path or "").endswith("Package::ty") for _, x in prov.slice(b, vt[0].args[2]).calls)
    ctx.ob("R19.6", "validate-call", ok3, "validate_target(types, selected world, component type)" if ok3 else "validate_target is not called with (selected world, component)", site=b.span)


def direct_fields(prov, f, op, owner):
    """field names of `owner` projected on the operand's own place (following plain copies of temporaries)."""
    d = prov.defs(f)
    for _ in range(4):
        if op.place is None:
            return set()
        fl = {n for n, o, v in op.place.fields() if o.endswith(owner)}
        if fl:
            return fl
        ds = [x for x in d.defs.get(op.place.local, ()) if x[0] == "stmt"]
        if len(ds) != 1 or ds[0][1].rv.k != "use":
            return set()
        op = ds[0][1].rv.ops[0]
    return set()


def ordinal(f, t):
    k = 0
    for c in f.calls():
        if c is t:
            return k
        if c.path == t.path:
            k += 1
    return k
