"""C04 — WAC documents compose what the language reference says (structural part)."""
from cfg import CFG, error_blocks
from prov import narrow
from pat import *
from facts import Operand, strip_generics
import tables

EXPLANATION = ("structural rules over the MIR of AstResolver: the argument-name inference consults its four sources in the documented "
               "precedence (instance id, import/alias name, unique path-suffix match, the identifier) — as must-pass-through between the "
               "corresponding calls and by the provenance of the name on each return; identifier names and `.name` accesses go through "
               "the suffix matcher while string names and `[\"name\"]` accesses do not; the ambiguity test inspects a second match of the "
               "same iterator; spreads run after named arguments, skip names already present and fail when nothing was added; `...` "
               "must be last and alone clears require-all, which alone guards the missing-argument scan; export-name inference order; "
               "liveness of the documented diagnostics. Necessary conditions; agreement with a reference evaluator is not decided")

RES = "wac_parser::resolution::AstResolver::"
ERR = "wac_parser::resolution::Error"
LIVE = ["UndefinedName", "DuplicateName", "MissingInstantiationArg", "DuplicateInstantiationArg", "NotAnInstance", "FillArgumentNotLast",
        "SpreadInstantiationNoMatch", "SpreadExportNoEffect", "DuplicateExternName", "ExportConflict", "ExportRequiresAs",
        "MissingInstanceExport", "MissingComponentImport", "MismatchedInstantiationArg", "UnknownPackage"]


WHOLE_LIST_CALLS = {"iter", "into_iter", "deref", "as_slice", "as_ref", "len", "enumerate", "borrow"}


def calls_to(f, suffix):
    return [t for t in f.calls() if (t.path or "").endswith(suffix)]


def run(ctx):
    db, prov = ctx.db, ctx.prov
    precedence(ctx)
    inference_split(ctx)
    ambiguity(ctx)
    assembly(ctx)
    export_names(ctx)
    access_forms_agree(ctx)
    spread_export_effect(ctx)
    liveness(ctx)


def precedence(ctx):
    db, prov = ctx.db, ctx.prov
    f = db.fn(RES + "inferred_instantiation_arg")
    ctx.touch(f)
    cfg = CFG(f)
    imp = calls_to(f, "CompositionGraph::get_import_name")
    ali = calls_to(f, "CompositionGraph::get_alias_source")
    fm = calls_to(f, "AstResolver::find_matching_interface_name")
    per_source_guards(ctx, f)
    ctx.ob("R04.1", "anchor", len(imp) == 1 and len(ali) == 1 and len(fm) == 1, "import-name / alias-source / suffix-match sites: %d/%d/%d" % (len(imp), len(ali), len(fm)), nontrivial=False)
    if not (imp and ali and fm):
        return
    # (1) before (2): the instance-id test (a switch on the item kind's discriminant) dominates the import-name query
    kind_sw = [b.idx for b in f.blocks if b.term.k == "switch" and any(s.rv.k == "discr" and s.rv.j.get("adt", "").endswith("component::ItemKind") for s in b.stmts)]
    ok1 = any(cfg.dominates(k, imp[0].bb) for k in kind_sw)
    ctx.ob("R04.1", "instance-id-first", ok1, "the instance-id source is consulted before the import/alias name" if ok1 else "the import/alias name is consulted without first trying the instance id", site=f.span)
    # (2) before (3): every path to the suffix matcher passes the import-name query; alias source only on its miss edge
    ok2 = cfg.must_pass([imp[0].bb], src=0, dsts={fm[0].bb})
    ctx.ob("R04.1", "import-name-before-suffix", ok2, "the suffix matcher runs only after the import/alias name was tried" if ok2 else
           "the unique-suffix match is tried before (or without) the import/alias name", site="%s in %s" % (fm[0].span, f.id))
    ok3 = cfg.dominates(imp[0].bb, ali[0].bb)
    ctx.ob("R04.1", "alias-after-import", ok3, "the alias-source name is tried when the node is not an import" if ok3 else "alias-source lookup is not ordered after the import-name lookup", site=f.span)
    # each source is accepted only if the package actually imports that name
    ck = calls_to(f, "IndexMap::contains_key")
    n_guard = sum(1 for c in ck if narrow(prov, f, c.args[0]).has_field("imports", "component::World"))
    ctx.ob("R04.1", "contains-key-guards", n_guard >= 3, "inferred names from sources 1 and 2 are accepted only when the package imports them (%d guards)" % n_guard, site=f.span)
    # provenance of the name on the returns
    rets = [s for s in f.stmts() if s.lhs.local == 0 and s.rv.k == "agg" and s.rv.j.get("variant") == "Ok"]
    kinds = set()
    for s in rets:
        sl = prov.slice(f, s.rv.ops[0])
        d = prov.defs(f)
        # the tuple's first component
        for fid, l in sl.locals:
            for kind, site in d.defs.get(l, ()):
                if kind == "stmt" and site.rv.k == "agg" and site.rv.j.get("tuple") and len(site.rv.ops) == 3:
                    ns = prov.slice(f, site.rv.ops[0])
                    if ns.has_call("find_matching_interface_name"):
                        kinds.add("suffix")
                    elif ns.has_call("get_import_name"):
                        kinds.add("import")
                    elif ns.has_call("get_alias_source"):
                        kinds.add("alias")
                    elif ns.has_field("id", "component::Interface"):
                        kinds.add("instance-id")
                    elif ns.has_field("string", "ast::Ident"):
                        kinds.add("ident")
    ok = kinds >= {"instance-id", "import", "alias", "suffix", "ident"}
    ctx.ob("R04.1", "name-sources", ok, "the five return sites name the argument after the instance id, the import name, the alias export, the suffix match and the identifier" if ok else
           "return sites found for %s only" % sorted(kinds), site=f.span)


def per_source_guards(ctx, f):
    """each of the documented name sources 1 and 2 (instance id; import name; alias export name) is tested against the
    package's imports *on its own*, so a miss on one falls through to the next: for every source there is a
    `world.imports.contains_key(k)` whose key is derived from that source and from no other."""
    db, prov = ctx.db, ctx.prov
    per = {"instance-id": 0, "import-name": 0, "alias-name": 0}
    mixed = []
    for g in db.with_closures(f):
        for c in calls_to(g, "IndexMap::contains_key"):
            if not narrow(prov, g, c.args[0]).has_field("imports", "component::World"):
                continue
            ks = prov.slice(g, c.args[1])
            src = set()
            if ks.has_field("id", "component::Interface"):
                src.add("instance-id")
            if ks.has_call("get_import_name"):
                src.add("import-name")
            if ks.has_call("get_alias_source"):
                src.add("alias-name")
            if len(src) == 1:
                per[src.pop()] += 1
            elif len(src) > 1:
                mixed.append("%s tests %s together" % (c.span, "/".join(sorted(src))))
    for k, n in sorted(per.items()):
        ctx.ob("R04.1", "own-guard|" + k, n >= 1,
               "the %s candidate is checked against the package's imports on its own (falls through on a miss)" % k if n else
               "no `imports.contains_key` test of the %s candidate alone%s: when an earlier source yields a name the package does not import, "
               "the later sources are never tried (documented precedence 1 -> 2 -> 3 broken)" % (k, " (" + "; ".join(mixed) + ")" if mixed else ""),
               site=f.span)


def arm_callees(ctx, f, adt_suffix):
    """variant -> set of callee paths in the arm's region (until the arms rejoin)."""
    db, prov = ctx.db, ctx.prov
    cfg = CFG(f)
    out = {}
    for bidx, adt, arms, other in tables.switch_arms(db, prov, f):
        if not adt.endswith(adt_suffix):
            continue
        tgts = {tg for _, tg in arms}
        for v, tg in arms:
            # blocks reachable from this arm but not from the other arms (exclusive region)
            # (forward edges only: inside a loop every arm reaches every other arm through the back edge)
            mine = cfg.reach_forward(tg)
            others = set()
            for v2, tg2 in arms:
                if tg2 != tg:
                    others |= cfg.reach_forward(tg2)
            region = mine - others
            out[v] = {cfg.blocks[b].term.path for b in region if cfg.blocks[b].term.k == "call"}
    return out


def inference_split(ctx):
    db, prov = ctx.db, ctx.prov
    # anchored on the dispatched type, not on a function name: the function that matches on InstantiationArgumentName
    # (named_instantiation_arg — or its caller, when the helper was inlined)
    hosts = [h for h in db.fns.values() if h.id.startswith(RES) and "{closure" not in h.id and arm_callees(ctx, h, "InstantiationArgumentName")]
    if not hosts:
        ctx.lost("R04.2", "the dispatch on InstantiationArgumentName")
        return
    f = hosts[0]
    ctx.touch(f)
    arms = arm_callees(ctx, f, "InstantiationArgumentName")
    fm = RES + "find_matching_interface_name"
    ok = fm in arms.get("Ident", ()) and fm not in arms.get("String", ()) and "String" in arms
    ctx.ob("R04.2", "named-arg|ident-vs-string", ok, "identifier argument names go through the suffix matcher, string names are used exactly" if ok else
           "name inference is applied to string argument names (or not to identifier names): arms=%s" % {k: fm in v for k, v in arms.items()}, site=f.span)
    g = db.fn(RES + "postfix_expr")
    ctx.touch(g)
    arms = arm_callees(ctx, g, "PostfixExpr")
    ok = fm in arms.get("Access", ()) and fm not in arms.get("NamedAccess", ()) and "NamedAccess" in arms
    ctx.ob("R04.2", "access|dot-vs-bracket", ok, "`.name` accesses go through the suffix matcher, `[\"name\"]` accesses are exact" if ok else
           "name inference is applied to `[\"name\"]` accesses (or not to `.name`): arms=%s" % {k: fm in v for k, v in arms.items()}, site=g.span)
    # both forms reject non-instances and missing exports
    for fn_, lab in ((g, "postfix_expr"),):
        vs = {s.rv.j.get("variant") for s in fn_.stmts() if s.rv.k == "agg" and s.rv.j.get("adt", "") == ERR} | \
             {s.rv.j.get("variant") for c in db.with_closures(fn_) for s in c.stmts() if s.rv.k == "agg" and s.rv.j.get("adt", "") == ERR}
        ctx.ob("R04.2", "access-errors", {"NotAnInstance", "MissingInstanceExport"} <= vs, "accesses report NotAnInstance / MissingInstanceExport: %s" % sorted(vs), nontrivial=False)


def ambiguity(ctx):
    """find_matching_interface_name: exact hit first; unique match = first match and no second one from the same iterator."""
    db, prov = ctx.db, ctx.prov
    f = db.fn(RES + "find_matching_interface_name")
    ctx.touch(f)
    cfg = CFG(f)
    ck = calls_to(f, "IndexMap::contains_key")
    nx = [t for t in f.calls() if (t.path or "").endswith("::next") and "Filter" in (t.path or "")]
    cnt = [t for t in f.calls() if (t.path or "").rsplit("::", 1)[-1] in ("count", "nth", "last", "skip", "take", "size_hint") and "iter" in (t.path or "").lower()]
    ok_exact = bool(ck) and all(cfg.dominates(c.bb, n.bb) for c in ck for n in nx) and bool(nx)
    ctx.ob("R04.3", "suffix|exact-name-first", ok_exact, "a name that exists directly is never treated as a path suffix" if ok_exact else "the direct-name test does not precede the suffix search", site=f.span)
    ok = len(nx) == 2 and not cnt
    if ok:
        second = nx[1] if cfg.dominates(nx[0].bb, nx[1].bb) else nx[0]
        isn = [t for t in f.calls() if (t.path or "").endswith(("Option::is_some", "Option::is_none")) and any(x is second for _, x in prov.slice(f, t.args[0]).calls)]
        # or a `match` on the second result's discriminant
        dis = [s for s in f.stmts() if s.rv.k == "discr" and any(x is second for _, x in prov.slice(f, s.rv.place).calls)]
        ok = bool(isn) or bool(dis)
    ctx.ob("R04.3", "suffix|unique-match", ok, "the match is accepted only if the same iterator yields no second match" if ok else
           "the ambiguity test is not `second match exists` on the same iterator (next sites=%d, counting adaptors=%s): after taking the first match, counting the rest mis-detects exactly two candidates" % (len(nx), [t.path.rsplit('::', 1)[-1] for t in cnt]),
           site=f.span)
    # the comparison is on the last path segment with the version stripped
    bodies = db.with_closures(f)
    def splits(names, ch):
        return any((t.path or "").rsplit("::", 1)[-1] in names and "str" in (t.path or "") and len(t.args) > 1 and t.args[1].const_value() == ("char", ord(ch))
                   for b in bodies for t in b.calls())
    rf = splits(("rfind", "rsplit_once", "rsplit", "rsplitn", "rsplit_terminator"), "/")     # after the LAST '/'
    at = splits(("find", "split_once", "split", "splitn"), "@")                               # before the FIRST '@' of that segment
    ctx.ob("R04.3", "suffix|last-segment", rf and at, "candidates are compared by their last `/` segment with the `@version` stripped" if rf and at else "suffix extraction is not (after last '/', before '@')", site=f.span)


def assembly(ctx):
    db, prov = ctx.db, ctx.prov
    f = db.fn(RES + "new_expr")
    ctx.touch(f)
    cfg = CFG(f)
    inf = calls_to(f, "AstResolver::inferred_instantiation_arg") + calls_to(f, "AstResolver::named_instantiation_arg")
    if RES + "named_instantiation_arg" not in db.fns:
        # the named-argument helper was inlined: its site is the dispatch on InstantiationArgumentName inside new_expr
        class _Site:
            pass
        for bidx, adt, arms_, other in tables.switch_arms(db, prov, f):
            if adt.endswith("InstantiationArgumentName"):
                st_ = _Site()
                st_.bb = bidx
                inf.append(st_)
                break
    spr = calls_to(f, "AstResolver::spread_instantiation_arg")
    # the spread pass may be written with iterator adaptors (`.filter_map(..).try_for_each(|id| self.spread_..(..))`):
    # then the call sits in a closure and its position in new_expr is the adaptor call the closure is handed to
    spr_pos = [(t.bb, True) for t in spr]
    for g in db.with_closures(f)[1:]:
        if calls_to(g, "AstResolver::spread_instantiation_arg"):
            for c in f.calls():
                if any(strip_generics(fa) == g.id for fa in c.fnargs) and (c.path or "").rsplit("::", 1)[-1] in ("try_for_each", "for_each", "try_fold", "fold", "map", "filter_map"):
                    spr_pos.append((c.bb, False))
    ctx.ob("R04.3", "anchor", len(inf) == 2 and len(spr_pos) == 1, "inferred/named and spread call sites: %d/%d" % (len(inf), len(spr_pos)), nontrivial=False)
    if inf and spr_pos:
        h1 = [loop_header_of(cfg, t.bb) for t in inf]
        pb, is_loop = spr_pos[0]
        h2 = loop_header_of(cfg, pb) if is_loop else pb
        ok = all(h is not None for h in h1) and h2 is not None and all(cfg.dominates(h, h2) and h != h2 and not cfg.reaches(h2, h) for h in h1)
        ctx.ob("R04.3", "spread-after-named", ok, "spread arguments are processed in a second loop, after all inferred and named arguments" if ok else
               "spreads are not processed after the loop over inferred/named arguments", site=f.span)
    # fill: error unless last; the only writer of require_all
    fill = [s for s in f.stmts() if s.rv.k == "agg" and s.rv.j.get("variant") == "FillArgumentNotLast"]
    okf = False
    fill_why = []
    for s in fill:
        for b in f.blocks:
            if b.term.k == "switch" and cfg.dominates(b.idx, s.bb):
                sl = prov.slice(f, Operand(b.term.j["discr"]))
                if sl.has_call("::len") and ("Sub" in sl.binops or "SubWithOverflow" in sl.binops) and sl.has_call("enumerate") and ("Ne" in sl.binops or "Eq" in sl.binops):
                    # both the length and the enumerated index range over the *whole* written argument list
                    whole = True
                    for _, c in sl.calls:
                        nm = (c.path or "").rsplit("::", 1)[-1]
                        if nm in ("len", "enumerate") and c.args:
                            rs = prov.slice(f, c.args[0])
                            adapt = sorted({(x.path or "?").rsplit("::", 1)[-1] for _, x in rs.calls} - WHOLE_LIST_CALLS)
                            if adapt or not rs.has_field("arguments", "NewExpr"):
                                whole = False
                                fill_why.append("`%s` at %s ranges over %s, not over the written argument list" % (nm, c.span, "a list produced by " + "/".join(adapt) if adapt else "another list"))
                    okf = okf or whole
    ctx.ob("R04.3", "fill-must-be-last", okf, "`...` is rejected unless its index is len-1 of the written argument list" if okf else
           "the fill argument is not compared with the last index of the written argument list%s" % (": " + "; ".join(fill_why) if fill_why else ""), site=f.span)
    ra = [l for l, n in ((int(k), v) for k, v in f.names.items() if k.isdigit()) if n == "require_all"]
    okr = False
    if ra:
        d = prov.defs(f)
        writes = [site for kind, site in d.defs.get(ra[0], ()) if kind == "stmt"]
        vals = [w.rv.ops[0].const_value() for w in writes if w.rv.k == "use" and w.rv.ops]
        # one `true` initialisation and `false` writes only in the Fill arm
        okr = sorted(v[1] for v in vals if v) == [False, True] and len(writes) == 2
        miss = [s for s in f.stmts() if s.rv.k == "agg" and s.rv.j.get("variant") == "MissingInstantiationArg"]
        guard = False
        for s in miss:
            for b in f.blocks:
                if b.term.k == "switch":
                    op = Operand(b.term.j["discr"])
                    if op.place is not None and op.place.local == ra[0] or (op.place is not None and (f.id, ra[0]) in prov.slice(f, op).locals):
                        tt, ft = true_false_targets(b.term)
                        if any(cfg.dominates(x, s.bb) for x in tt):
                            guard = True
        okr = okr and guard
    ctx.ob("R04.3", "require-all", okr, "require_all is cleared only by `...` and alone guards the missing-argument scan" if okr else
           "require_all is not (true; false only in the Fill arm; guard of MissingInstantiationArg)", site=f.span)
    dup = [s for s in f.stmts() if s.rv.k == "agg" and s.rv.j.get("variant") == "DuplicateInstantiationArg"]
    okd = False
    for s in dup:
        for t in f.calls():
            if (t.path or "").endswith("Option::is_some") and cfg.dominates(t.bb, s.bb) and prov.slice(f, t.args[0]).has_call("IndexMap::insert"):
                okd = True
    ctx.ob("R04.3", "duplicate-argument", okd, "a second insert of the same argument name yields DuplicateInstantiationArg" if okd else "duplicate arguments are not detected at insert", site=f.span)
    # own-package instantiation
    own = [s for s in f.stmts() if s.rv.k == "agg" and s.rv.j.get("variant") == "UnknownPackage"]
    ctx.ob("R04.3", "own-package", bool(own), "instantiating the document's own package is rejected" if own else "no own-package test in new_expr", site=f.span, nontrivial=False)

    g = db.fn(RES + "spread_instantiation_arg")
    ctx.touch(g)
    cg = CFG(g)
    ins = calls_to(g, "IndexMap::insert")
    ck = [t for t in calls_to(g, "IndexMap::contains_key") if any(i == 5 for fid, i in narrow(prov, g, t.args[0]).params)]
    oks = False
    for c in ck:
        sw = switch_after(cg, c)
        if sw is not None and ins:
            tt, ft = true_false_targets(sw)
            if all(any(cg.dominates(x, i.bb) for x in ft) and not any(cg.dominates(x, i.bb) for x in tt) for i in ins):
                oks = True
    ctx.ob("R04.3", "spread-skips-present", oks, "a spread only fills argument names that are not already present" if oks else
           "a spread can overwrite an argument that is already present (no `contains_key` guard before the insert): later spreads win and ineffective spreads are accepted", site=g.span)
    nomatch = [s for s in g.stmts() if s.rv.k == "agg" and s.rv.j.get("variant") == "SpreadInstantiationNoMatch"]
    okm = False
    for s in nomatch:
        for b in g.blocks:
            if b.term.k == "switch" and cg.dominates(b.idx, s.bb):
                op = Operand(b.term.j["discr"])
                if op.place is not None and g.local_ty(op.place.local) == "bool" and g.local_name(op.place.local):
                    okm = True
                if op.place is not None and any(g.local_name(l) == "spread" for fid, l in prov.slice(g, op).locals):
                    okm = True
    ctx.ob("R04.3", "spread-no-match", okm, "a spread that adds nothing is SpreadInstantiationNoMatch" if okm else "ineffective spreads are not rejected", site=g.span)
    na = [s for s in g.stmts() if s.rv.k == "agg" and s.rv.j.get("variant") == "NotAnInstance"]
    ctx.ob("R04.3", "spread-non-instance", bool(na), "spreading a non-instance is NotAnInstance" if na else "non-instance spreads are not rejected", site=g.span, nontrivial=False)


def export_names(ctx):
    db, prov = ctx.db, ctx.prov
    f = db.fn(RES + "infer_export_name")
    ctx.touch(f)
    cfg = CFG(f)
    imp = calls_to(f, "CompositionGraph::get_import_name")
    ali = calls_to(f, "CompositionGraph::get_alias_source")
    ok = bool(imp) and bool(ali) and cfg.dominates(imp[0].bb, ali[0].bb)
    kind_sw = [b.idx for b in f.blocks if b.term.k == "switch" and any(s.rv.k == "discr" and s.rv.j.get("adt", "").endswith("component::ItemKind") for s in b.stmts)]
    ok = ok and any(cfg.dominates(k, imp[0].bb) for k in kind_sw)
    ctx.ob("R04.2", "export-name-order", ok, "export names are inferred from the instance id, else the import name, else the alias export" if ok else "export-name inference order differs", site=f.span)
    e = db.fn(RES + "export_statement")
    ctx.touch(e)
    arms = arm_callees(ctx, e, "ExportOptions")
    ok = RES + "infer_export_name" in arms.get("None", ()) and RES + "infer_export_name" not in arms.get("Rename", ()) and RES + "alias_export" in arms.get("Spread", ())
    ctx.ob("R04.2", "export-options", ok, "plain export infers its name, `as` uses the given name, `...` aliases every export of the instance" if ok else
           "export option arms are cross-wired: %s" % {k: sorted(x.split('::')[-1] for x in v if x and x.startswith(RES)) for k, v in arms.items()}, site=e.span)
    ras = [s for c in db.with_closures(e) for s in c.stmts() if s.rv.k == "agg" and s.rv.j.get("variant") in ("ExportRequiresAs", "SpreadExportNoEffect")]
    ctx.ob("R04.2", "export-errors", len({s.rv.j["variant"] for s in ras}) == 2, "ExportRequiresAs and SpreadExportNoEffect are reported", nontrivial=False)
    # spread export skips names already exported
    ge = calls_to(e, "CompositionGraph::get_export")
    ctx.ob("R04.2", "spread-export-skips-exported", bool(ge), "spread exports skip names that are already exported" if ge else "spread export does not test get_export(name)", site=e.span)


def arm_errors(ctx, f, adt_suffix, depth=2):
    """variant -> set of resolution::Error variants that can be built in the arm's exclusive region, in the closures created
    there and in the local functions called from there (depth-limited)."""
    db, prov = ctx.db, ctx.prov
    cfg = CFG(f)

    def errs_of(g, seen, d):
        out = set()
        if g.id in seen or d < 0:
            return out
        seen.add(g.id)
        for h in db.with_closures(g):
            for st in h.stmts():
                if st.rv.k == "agg" and (st.rv.j.get("adt") or "").endswith("resolution::Error"):
                    out.add(st.rv.j.get("variant"))
            for t in h.calls():
                c = db.fns.get(t.path or "")
                if c is not None and c.id.startswith(RES) and c.id != f.id:
                    out |= errs_of(c, seen, d - 1)
        return out
    res = {}
    for bidx, adt, arms, other in tables.switch_arms(db, prov, f):
        if not adt.endswith(adt_suffix):
            continue
        for v, tg in arms:
            mine = cfg.reach_forward(tg)
            others = set()
            for v2, tg2 in arms:
                if tg2 != tg:
                    others |= cfg.reach_forward(tg2)
            region = mine - others
            out = set()
            for b in region:
                blk = cfg.blocks[b]
                for st in blk.stmts:
                    if st.rv.k == "agg" and (st.rv.j.get("adt") or "").endswith("resolution::Error"):
                        out.add(st.rv.j.get("variant"))
                    if st.rv.k == "agg" and "closure" in st.rv.j:
                        c = db.fns.get(st.rv.j["closure"])
                        if c is not None:
                            out |= errs_of(c, set(), depth)
                t = blk.term
                if t.k == "call":
                    c = db.fns.get(t.path or "")
                    if c is not None and c.id.startswith(RES) and c.id != f.id:
                        out |= errs_of(c, set(), depth)
                    for fa in t.fnargs:
                        c = db.fns.get(strip_generics(fa))
                        if c is not None:
                            out |= errs_of(c, set(), depth)
            res[v] = out
    return res


def access_forms_agree(ctx):
    """R04.2: `x.name` and `x["name"]` are two spellings of the same selection: both arms of the postfix dispatch can report the
    same diagnostics (a non-instance is NotAnInstance, a missing export MissingInstanceExport) — a check that only one arm
    performs (or inherits from a helper) gives the other form the wrong diagnostic."""
    db = ctx.db
    f = db.fns.get(RES + "postfix_expr")
    if f is None:
        ctx.lost("R04.2", RES + "postfix_expr")
        return
    ctx.touch(f)
    e = arm_errors(ctx, f, "PostfixExpr")
    a, b = e.get("Access"), e.get("NamedAccess")
    ok = a is not None and b is not None and a == b and {"NotAnInstance", "MissingInstanceExport"} <= a
    ctx.ob("R04.2", "access-forms-agree", ok,
           "both access forms report NotAnInstance / MissingInstanceExport" if ok else
           "the two access forms differ in the diagnostics they can report: `.name` %s, `[\"name\"]` %s — one form of a non-instance access gets the wrong diagnostic"
           % (sorted(a or ()), sorted(b or ())), site=f.span)


def spread_export_effect(ctx):
    """R04.2: `export x...;` is an error when *this statement* exported nothing — the SpreadExportNoEffect test reads a value that
    the export loop writes after a successful export_item (a flag / counter), not a property of the instance alone (an
    instance whose exports are all exported already has exports, yet the spread is ineffective)."""
    db, prov = ctx.db, ctx.prov
    e = db.fn(RES + "export_statement")
    cfg = CFG(e)
    errs = [st for st in e.stmts() if st.rv.k == "agg" and st.rv.j.get("variant") == "SpreadExportNoEffect"]
    items = calls_to(e, "AstResolver::export_item")
    loop_items = [t for t in items if cfg.reaches(t.bb, t.bb)]
    ok = False
    why = "SpreadExportNoEffect is not guarded by a value written in the export loop"
    d = prov.defs(e)
    for st in errs:
        for b in e.blocks:
            if b.term.k != "switch" or not cfg.dominates(b.idx, st.bb) or cfg.reaches(b.idx, b.idx):
                continue     # (the loop's own `next()` test is not the guard)
            sl = prov.slice(e, Operand(b.term.j["discr"]))
            for fid, l in sl.locals:
                if fid != e.id or not e.local_name(l):
                    continue
                for kind, site in d.defs.get(l, ()):
                    if kind == "stmt" and any(cfg.dominates(t.bb, site.bb) or (cfg.reaches(t.bb, site.bb) and cfg.reaches(site.bb, t.bb)) for t in loop_items) \
                            and cfg.reaches(site.bb, site.bb):
                        ok = True
                        why = "reported when the export loop recorded no successful export (`%s`)" % (e.local_name(l) or "_%d" % l)
    ctx.ob("R04.2", "spread-export-effect", ok and bool(loop_items), why if ok else
           why + ": an instance whose exports are all already exported makes `export x...;` a silent no-op instead of an error", site=e.span)


def liveness(ctx):
    db, prov = ctx.db, ctx.prov
    reach = db.reachable(["wac_parser::ast::Document::resolve"])
    built = set()
    for fid in reach:
        f = db.fns.get(fid)
        if f is None:
            continue
        for s in f.stmts():
            if s.rv.k == "agg" and s.rv.j.get("adt") == ERR:
                built.add(s.rv.j["variant"])
    for v in LIVE:
        ctx.ob("R04.4", "live|" + v, v in built, "diagnostic %s is constructed on a path reachable from Document::resolve" % v if v in built else
               "diagnostic %s can no longer be produced by resolution" % v)
    ops = set()
    for fid in reach:
        f = db.fns.get(fid)
        if f is None:
            continue
        for s in f.stmts():
            if s.rv.k == "agg" and s.rv.j.get("adt", "").endswith("InstanceOperation"):
                ops.add(s.rv.j["variant"])
    ctx.ob("R04.4", "live|NotAnInstance-operations", ops >= {"Access", "Spread"}, "NotAnInstance is reported for both access and spread: %s" % sorted(ops))
