"""C11 — a `targets` verdict means the output conforms to the world (structural part)."""
from cfg import CFG, error_blocks
from prov import narrow
from pat import *
from facts import Operand, strip_generics
import c01, c07

EXPLANATION = ("sibling cross-check of the two conformance implementations (AstResolver::validate_target and "
               "wac_types::targets::validate_target): imports are checked as is_subtype(world kind promoted, component kind) inside "
               "invert()/revert(), exports as is_subtype(component kind, world kind promoted) outside; every import / every world "
               "export reaches its check on each non-error iteration; both consult the interfaces implicitly imported through `use`; "
               "the documented diagnostics are live and the report's three sets feed the verdict; target validation dominates the "
               "successful return of resolve when a target is declared; the checker's kind dispatch does not conflate kinds (C07 "
               "R07.5). Necessary conditions; coincidence with the reference validator's subtyping is not decided")

CK = "wac_types::checker::SubtypeChecker::"
RES_VT = "wac_parser::resolution::AstResolver::validate_target"
BIN_VT = "wac_types::targets::validate_target"


def implicit_set_keys(ctx):
    """R11.1 `implicit-set-key`: World::implicit_imported_interfaces collects the interfaces behind *every* used type of the
    world and of its imported interfaces.  Any keyed collection built on the way is keyed by the interface's name
    (Interface::id); a coarser key (e.g. the local type name) lets two used types of the same name from different interfaces
    collapse, and one interface drops out of the set the world is considered to import."""
    db, prov = ctx.db, ctx.prov
    f = next((g for k, g in db.fns.items() if k.endswith("World::implicit_imported_interfaces")), None)
    if f is None:
        ctx.lost("R11.1", "World::implicit_imported_interfaces")
        return
    n = 0
    bad = []
    for g in db.with_closures(f):
        ctx.touch(g)
        for t in g.calls():
            p = t.path or ""
            if p.rsplit("::", 1)[-1] in ("insert", "entry") and ("IndexMap" in p or "HashMap" in p or "BTreeMap" in p):
                n += 1
                if not prov.slice(g, t.args[1]).has_field("id", "component::Interface"):
                    bad.append("%s keyed by something other than the interface name" % t.span)
        if g is not f:
            for st in g.stmts():
                if st.lhs.local == 0 and not st.lhs.proj and st.rv.k == "agg" and st.rv.j.get("tuple") and len(st.rv.ops) == 2:
                    n += 1
                    if not prov.slice(g, st.rv.ops[0]).has_field("id", "component::Interface"):
                        bad.append("%s yields an entry keyed by something other than the interface name" % st.span)
    ctx.ob("R11.1", "implicit-set-key", n >= 1 and not bad,
           "the implicit-import set (and every keyed collection on the way to it) is keyed by Interface::id (%d site(s))" % n if n and not bad else
           "implicit_imported_interfaces: %s — used types with equal keys from different interfaces collapse and an interface the world really imports is dropped" % ("; ".join(bad) or "no keyed insertion found"),
           site=f.span)


def run(ctx):
    db, prov = ctx.db, ctx.prov
    for fid, label in ((RES_VT, "resolver"), (BIN_VT, "binary")):
        f = db.fn(fid)
        ctx.touch(f)
        cfg = CFG(f)
        checks = [t for t in f.calls() if t.path == CK + "is_subtype"]
        inv = [t for t in f.calls() if t.path == CK + "invert"]
        rev = [t for t in f.calls() if t.path == CK + "revert"]
        ctx.ob("R11.1", "anchor|" + label, len(checks) == 2 and len(inv) == 1 and len(rev) == 1, "is_subtype/invert/revert sites in %s: %d/%d/%d" % (label, len(checks), len(inv), len(rev)), nontrivial=False)
        for t in checks:
            in_region = any(cfg.dominates(i.bb, t.bb) for i in inv) and not any(cfg.dominates(r.bb, t.bb) for r in rev)
            s_sub, s_sup = prov.slice(f, t.args[1]), prov.slice(f, t.args[3])
            sub_prom, sup_prom = s_sub.has_call("ItemKind::promote"), s_sup.has_call("ItemKind::promote")

            def world_side(sl):
                return sl.has_call("ItemKind::promote")

            def comp_imports(sl):
                return sl.has_call("CompositionGraph::imports") or (sl.has_field("imports", "component::World") and not sl.has_call("ItemKind::promote"))

            def comp_exports(sl):
                return sl.has_call("CompositionGraph::get_export") or sl.has_field("item_kind", "graph::Node") or sl.has_call("NameMap") or sl.has_call("names::NameMap::get") or \
                    (sl.has_field("exports", "component::World") and not sl.has_call("ItemKind::promote"))
            if in_region:
                ok = sub_prom and not sup_prom and comp_imports(s_sup)
                ctx.ob("R11.1", "imports|" + label, ok, "imports: is_subtype(world's import kind promoted, the composition's import kind) inside invert/revert" if ok else
                       "the import conformance check is not is_subtype(world kind .promote(), component kind) in the inverted region (promote on sub=%s sup=%s)" % (sub_prom, sup_prom),
                       site="%s in %s" % (t.span, f.id))
            else:
                ok = sup_prom and not sub_prom and comp_exports(s_sub) and s_sup.has_field("exports", "component::World")
                ctx.ob("R11.1", "exports|" + label, ok, "exports: is_subtype(the composition's export kind, world's export kind promoted) outside invert/revert" if ok else
                       "the export conformance check is not is_subtype(component kind, world kind .promote()): arguments are swapped or come from the wrong side (promote on sub=%s sup=%s)" % (sub_prom, sup_prom),
                       site="%s in %s" % (t.span, f.id))
            # every non-error iteration reaches the check
            nxs = [x for x in f.calls() if (x.path or "").endswith("::next") and cfg.reaches(x.bb, t.bb) and cfg.reaches(t.bb, x.bb) and x.target is not None]
            for nx in nxs[:1]:
                sw = cfg.blocks[nx.target].term
                if sw.k != "switch":
                    continue
                some = [tg for v, tg in sw.j["targets"] if v == 1]
                if not some:
                    continue
                # blocks that record a finding / return an error are legitimate ways not to reach the check
                skips = set(error_blocks(f))
                for s in f.stmts():
                    if s.rv.k == "agg" and s.rv.j.get("variant") in ("ImportNotInTarget", "MissingTargetExport"):
                        skips.add(s.bb)
                for c in f.calls():
                    if (c.path or "").endswith(("BTreeSet::insert", "BTreeMap::insert")):
                        skips.add(c.bb)
                    if (c.path or "").endswith(("Option::ok_or_else", "Option::ok_or")) and cfg.reaches(c.bb, t.bb):
                        pass
                ok = cfg.must_pass([t.bb] + sorted(skips), src=some[0], dsts={nx.bb})
                ctx.ob("R11.1", "every-item-checked|%s|%s" % (label, "imports" if in_region else "exports"), ok,
                       "every iteration either reports a finding or performs the subtype check" if ok else
                       "an iteration can skip the subtype check without reporting anything (e.g. names already seen): a later, mismatching view of the same import is accepted",
                       site="%s in %s" % (t.span, f.id))
        # implicit imports through `use`
        impl_ = any((t.path or "").endswith("World::implicit_imported_interfaces") for t in f.calls()) or \
            any((t.path or "").endswith("::all_imports") for t in f.calls())
        ctx.ob("R11.1", "implicit-imports|" + label, impl_, "interfaces imported implicitly through `use` are part of the world's imports" if impl_ else
               "%s ignores interfaces imported implicitly through `use`" % label, site=f.span)
    ai = db.fns.get("wac_types::targets::<impl component::World>::all_imports") or next((f for k, f in db.fns.items() if k.endswith("::all_imports")), None)
    if ai is None:
        ctx.lost("R11.1", "World::all_imports")
    else:
        ctx.touch(ai)
        ok = any((t.path or "").endswith("implicit_imported_interfaces") for t in ai.calls()) and \
            any(s for s in ai.stmts() if any(n == "imports" for pl in [s.rv.place] + [o.place for o in s.rv.ops] if pl is not None for n, o, v in pl.fields()))
        ctx.ob("R11.1", "all-imports", ok, "all_imports = implicit (used) interfaces + explicit imports" if ok else "all_imports misses the implicit or the explicit imports", site=ai.span)

    implicit_set_keys(ctx)

    # R11.1 (iv) both implementations look names up with the same discipline (the stand-alone check is semver-aware: NameMap)
    for kind, res_call, what in (("imports", "IndexMap::get", "the world's import for a composition import"),
                                 ("exports", "CompositionGraph::get_export", "the composition's export for a world export")):
        b = db.fn(BIN_VT)
        r = db.fn(RES_VT)
        bin_semver = any((t.path or "").endswith("names::NameMap::get") for t in b.calls())
        res_bodies = db.with_closures(r)
        res_semver = any((t.path or "").endswith("names::NameMap::get") for g in res_bodies for t in g.calls())
        res_exact = any((t.path or "").endswith(res_call) for g in res_bodies for t in g.calls())
        ok = bin_semver == (res_semver and not res_exact) or (not bin_semver and not res_semver)
        ctx.ob("R11.1", "lookup-discipline|" + kind, ok,
               "both conformance checks look up %s with the same (semver-aware) name matching" % what if ok else
               "the stand-alone check looks up %s through the semver-aware NameMap while the resolution-time check uses an exact `%s`: "
               "for semver-compatible but unequal interface versions the two verdicts differ" % (what, res_call), site=r.span)

    # R11.2 diagnostics and verdict
    r = db.fn(RES_VT)
    vs = set()
    kinds = set()
    for b in db.with_closures(r):
        for s in b.stmts():
            if s.rv.k == "agg" and s.rv.j.get("adt", "") == "wac_parser::resolution::Error":
                vs.add(s.rv.j["variant"])
            if s.rv.k == "agg" and s.rv.j.get("adt", "").endswith("ExternKind"):
                kinds.add(s.rv.j["variant"])
    ctx.ob("R11.2", "diagnostics|resolver", {"ImportNotInTarget", "MissingTargetExport", "TargetMismatch"} <= vs and kinds >= {"Import", "Export"},
           "resolver reports ImportNotInTarget, MissingTargetExport, TargetMismatch(Import|Export): %s %s" % (sorted(vs), sorted(kinds)))
    fr = next((f for k, f in db.fns.items() if "targets::TargetValidationReport" in k and k.endswith(">::from")), None)
    if fr is None:
        ctx.lost("R11.2", "From<TargetValidationReport>")
    else:
        ctx.touch(fr)
        emp = [t for t in fr.calls() if (t.path or "").endswith("::is_empty")]
        flds = set()
        for t in emp:
            flds |= narrow(ctx.prov, fr, t.args[0]).field_names("TargetValidationReport")
        ctx.ob("R11.2", "verdict-uses-all-sets", flds >= {"imports_not_in_target", "missing_exports", "mismatched_types"},
               "the verdict is Ok only if all three finding sets are empty: %s" % sorted(flds), site=fr.span)
    b = db.fn(BIN_VT)
    ins = {n for t in b.calls() if (t.path or "").endswith(("BTreeSet::insert", "BTreeMap::insert")) for n in narrow(prov, b, t.args[0]).field_names("TargetValidationReport")}
    ctx.ob("R11.2", "findings|binary", ins >= {"imports_not_in_target", "missing_exports", "mismatched_types"}, "the binary check records all three kinds of findings: %s" % sorted(ins), site=b.span)

    # R11.3 resolve validates the target
    res = db.fn("wac_parser::resolution::AstResolver::resolve")
    ctx.touch(res)
    cfg = CFG(res)
    vt = [t for t in res.calls() if t.path == RES_VT]
    okc = False
    for t in vt:
        for blk in res.blocks:
            if blk.term.k == "switch" and prov.slice(res, Operand(blk.term.j["discr"])).has_field("targets", "ast::PackageDirective"):
                some = [tg for v, tg in blk.term.j["targets"] if v == 1]
                none = [tg for v, tg in blk.term.j["targets"] if v == 0] or [blk.term.j["otherwise"]]
                # every success path from the Some edge passes validate_target
                if some and cfg.must_pass([t.bb], src=some[0], cut=error_blocks(res)):
                    okc = True
    ctx.ob("R11.3", "validated-on-success", okc, "when the directive declares a target, every successful path of resolve passes validate_target" if okc else
           "resolve can succeed without validating the declared target", site=res.span)
    nw = any(s.rv.k == "agg" and s.rv.j.get("variant") == "NotWorld" for s in res.stmts())
    ctx.ob("R11.3", "non-world-target", nw, "a target that is not a world is an error" if nw else "non-world targets are not rejected", site=res.span)
    c07.check_cross_kind(c01.ctx_alias(ctx, "R11.4"))
    # the checker compares *decoded* types: the conformance verdict is only as good as the decode tables and the checker's
    # notion of equality (C08 R08.2 primitive rows, C07 R07.7), recorded under R11.4
    import tables, engine
    fns = [f for f in db.fns.values() if f.crate == "wac_types" and not f.from_expansion]
    tables.check_enum_tables(engine.AliasCtx(ctx, {"R08.2": "R11.4"}), "R08.2", fns,
                             only=lambda e1, e2: "Primitive" in e1 and "Primitive" in e2)
    c07.check_ordered_equality(engine.AliasCtx(ctx, {"R07.7": "R11.4"}), c07.checker_fns(db))
    # both conformance checks go through SubtypeChecker::is_subtype and its memo (C07 R07.3): a memo hit for another pair —
    # e.g. the pair of the opposite variance — would skip the export check after the import check
    c07.check_memo(engine.AliasCtx(ctx, {"R07.3": "R11.4"}))
