"""A7 order-taint: does the iteration order of a std HashMap/HashSet reach an order-sensitive sink?

Forward, flow-insensitive taint over MIR locals, with closure descent and function summaries
("returns hash-ordered data").  Only a source that reaches a sink is reported."""
from collections import defaultdict
from cfg import CFG
from facts import strip_generics

HASH_TYPES = ("std::collections::HashMap<", "std::collections::HashSet<", "std::collections::hash_map::", "std::collections::hash_set::")
SOURCE_METHODS = {"iter", "iter_mut", "keys", "values", "values_mut", "into_iter", "drain", "into_keys", "into_values",
                  "difference", "symmetric_difference", "intersection", "union", "extract_if"}
ORDERED_TYPES = ("alloc::vec::Vec<", "alloc::string::String", "indexmap::map::IndexMap<", "indexmap::set::IndexSet<",
                 "alloc::collections::vec_deque::VecDeque<", "wasm_encoder::", "&mut alloc::vec::Vec<", "&mut alloc::string::String",
                 "&mut indexmap::", "core::option::Option<alloc::vec::Vec<")
SORTED_TYPES = ("alloc::collections::btree::map::BTreeMap<", "alloc::collections::btree::set::BTreeSet<", "alloc::collections::binary_heap::BinaryHeap<")
HASH_TY_PREFIX = ("std::collections::hash::map::HashMap<", "std::collections::hash::set::HashSet<")

# order-insensitive reductions / queries: the result does not depend on iteration order
REDUCTIONS = ("::count", "::sum", "::all", "::any", "::len", "::is_empty", "::contains", "::contains_key", "::max", "::min",
              "::product", "::is_some", "::is_none", "::eq", "::ne", "::get", "::is_subset", "::is_superset", "::is_disjoint")
# S1: first-element extraction / position-dependent adaptors
S1 = ("::find", "::find_map", "::position", "::nth", "::last", "::take", "::skip", "::skip_while", "::take_while", "::enumerate",
      "::zip", "::peekable", "::next_back", "::rev", "::step_by", "::fold", "::try_fold", "::reduce", "::first", "::map_while",
      "::rposition", "::try_for_each", "::chunks", "::windows", "::scan")
# S2: ordered accumulation
S2_SUFFIX = ("Vec::push", "Vec::insert", "Vec::extend_from_slice", "Vec::append", "VecDeque::push_back", "VecDeque::push_front",
             "String::push_str", "String::push", "fmt::Write::write_fmt", "fmt::Write::write_str", "fmt::Write::write_char",
             "io::Write::write_all", "io::Write::write_fmt", "io::Write::write", "IndexMap::insert", "IndexMap::insert_full",
             "IndexMap::entry", "IndexSet::insert", "IndexSet::insert_full", "StableGraph::add_node", "StableGraph::add_edge",
             "StableGraph::remove_node", "StableGraph::remove_edge", "IndexMap::swap_remove", "IndexMap::shift_remove", "Vec::swap_remove", "Vec::remove",
             "Formatter::write_str", "Formatter::write_fmt", "::extend", "DebugList::entry", "DebugMap::entry", "DebugSet::entry",
             "Vec::extend", "::_print", "::_eprint")
S2_PREFIX = ("wasm_encoder::", "wasm_metadata::")
SORTS = ("::sort", "::sort_by", "::sort_by_key", "::sort_unstable", "::sort_unstable_by", "::sort_unstable_by_key", "::sort_by_cached_key")
PER_ITEM_ADAPTORS = ("::for_each", "::map", "::filter", "::filter_map", "::flat_map", "::inspect", "::retain", "::any", "::all",
                     "::find", "::find_map", "::position", "::fold", "::try_for_each", "::try_fold", "::map_while", "::take_while",
                     "::skip_while", "::partition", "::max_by_key", "::min_by_key", "::retain_mut", "::and_modify")


def is_hash_ty(s):
    s = s.lstrip("&").replace("mut ", "", 1) if s.startswith("&") else s
    return s.startswith(HASH_TYPES)


def recv_is_hash(fn, term):
    """first argument's type (through refs) is a std hash collection or one of its iterator types."""
    if not term.args:
        return False
    a = term.args[0]
    if a.place is None:
        return False
    ty = fn.local_ty(a.place.local)
    t = ty
    while t.startswith("&"):
        t = t[1:]
        if t.startswith("mut "):
            t = t[4:]
        if t.startswith("'"):
            t = t.split(" ", 1)[1] if " " in t else t
    if a.place.proj:
        # projected place: fall back on the callee path
        return False
    return t.startswith(HASH_TYPES[:2])


def is_source(fn, term):
    p = term.path or ""
    m = p.rsplit("::", 1)[-1]
    if m not in SOURCE_METHODS:
        return False
    if p.startswith(("std::collections::hash::map::HashMap::", "std::collections::hash::set::HashSet::")):
        return True
    if "std::collections::hash::map::HashMap<" in p.split(" as ")[0] or "std::collections::hash::set::HashSet<" in p.split(" as ")[0]:
        # <&HashMap<K,V,S> as IntoIterator>::into_iter
        return True
    return False


def is_hash_retain(term):
    p = term.path or ""
    return p in ("std::collections::hash::map::HashMap::retain", "std::collections::hash::set::HashSet::retain")


class Finding:
    def __init__(self, fn, source, sink_kind, sink, why):
        self.fn = fn
        self.source = source     # Term of the hash iteration (or summary call)
        self.sink_kind = sink_kind
        self.sink = sink         # Term or Stmt
        self.why = why

    def key(self):
        src = self.source.path if hasattr(self.source, "path") else str(self.source)
        recv = ""
        snk = self.sink.path if hasattr(self.sink, "path") and self.sink.path else "return"
        return "%s|%s->%s:%s" % (self.fn.id, short(src), self.sink_kind, short(snk))


def short(p):
    p = strip_generics(p or "")
    if p.startswith("<"):
        # <T as Trait>::m  ->  T::m (last segments)
        inner = p[1:].split(" as ")[0]
        m = p.rsplit("::", 1)[-1]
        base = inner.split("<")[0].lstrip("&").replace("mut ", "")
        return base.split("::")[-1] + "::" + m
    parts = p.split("::")
    return "::".join(parts[-2:])


class Taint:
    def __init__(self, db, scope_pred, allow_sources=None):
        self.db = db
        self.fns = [f for f in db.fns.values() if scope_pred(f)]
        self.returns_t = {}      # fn id -> source Term (summary)
        self.findings = []
        self.sources = []        # (fn, term)
        self.allow_sources = allow_sources or (lambda fn, t: False)
        self._closure_params_t = defaultdict(set)   # closure id -> set(param locals tainted) with source
        self._closure_src = {}

    def sink_fns(self):
        """local functions that (transitively, depth <= 3) perform an ordered accumulation / order-sensitive graph mutation:
        calling one of them once per item of a hash-ordered iteration is itself order-sensitive."""
        direct = set()
        for f in self.db.fns.values():
            for t in f.calls():
                p = t.path or ""
                if (p.endswith(S2_SUFFIX) or p.startswith(S2_PREFIX)) and not any(m.startswith(("log::", "$crate::log")) for m in t.mac):
                    if not p.endswith(("fmt::Write::write_fmt", "fmt::Write::write_str", "Formatter::write_str", "Formatter::write_fmt", "::extend")):
                        direct.add(f.id)
        out = set(direct)
        for _ in range(3):
            add = set()
            for f in self.db.fns.values():
                if f.id in out:
                    continue
                if any(c in out for c in self.db.callees(f, include_fn_operands=False)):
                    add.add(f.id)
            out |= add
        return out

    def run(self):
        self._sinkfns = self.sink_fns()
        # fixpoint on summaries
        for _ in range(6):
            changed = False
            self.findings = []
            self.sources = []
            for f in self.fns:
                # closures / coroutine bodies (async fns) are analysed on their own too: they may contain sources
                if self.analyse(f, {}):
                    changed = True
            if not changed:
                break
        # de-duplicate findings
        seen = {}
        for fd in self.findings:
            seen.setdefault(fd.key(), fd)
        self.findings = list(seen.values())
        return self.findings

    # ------------------------------------------------------------------
    def analyse(self, f, init, depth=0):
        """init: {local: source Term}.  returns True if the function's summary changed."""
        T = dict(init)
        sorted_locals = set()
        blocks = f.blocks
        # locals that get sorted in this body: never considered order-tainted
        refs = {}
        for s in f.stmts():
            if s.rv.k == "ref" and not s.lhs.proj:
                refs[s.lhs.local] = s.rv.place.local
            if s.rv.k == "use" and s.rv.ops and s.rv.ops[0].place is not None and not s.lhs.proj and not s.rv.ops[0].place.proj:
                refs.setdefault(s.lhs.local, s.rv.ops[0].place.local)
        for t in f.calls():
            if (t.path or "").endswith(SORTS) and t.args and t.args[0].place is not None:
                l = t.args[0].place.local
                for _ in range(6):
                    sorted_locals.add(l)
                    # sort(&mut *deref_mut(&mut v)): follow deref_mut call results back to their argument
                    nxt = refs.get(l)
                    if nxt is None:
                        for c in f.calls():
                            if c.dest.local == l and not c.dest.proj and (c.path or "").endswith(("::deref_mut", "::as_mut_slice", "::as_mut")) and c.args[0].place is not None:
                                nxt = c.args[0].place.local
                    if nxt is None:
                        break
                    l = nxt

        def tainted_op(o):
            return o.place is not None and o.place.local in T and o.place.local not in sorted_locals

        def src_of(o):
            return T[o.place.local]

        changed = True
        rounds = 0
        while changed and rounds < 50:
            changed = False
            rounds += 1
            for b in blocks:
                if b.cleanup:
                    continue
                for s in b.stmts:
                    l = s.lhs.local
                    if l in T or l in sorted_locals:
                        continue
                    src = None
                    if s.rv.place is not None and s.rv.place.local in T and s.rv.place.local not in sorted_locals:
                        src = T[s.rv.place.local]
                    for o in s.rv.ops:
                        if tainted_op(o):
                            src = src_of(o)
                    if src is not None:
                        T[l] = src
                        changed = True
                t = b.term
                if t.k != "call":
                    continue
                p = t.path or ""
                src = None
                if is_source(f, t) and not self.allow_sources(f, t):
                    src = t
                elif p in self.returns_t:
                    src = self.returns_t[p]
                else:
                    for a in t.args:
                        if tainted_op(a):
                            src = src_of(a)
                            break
                if src is None:
                    continue
                if p.endswith(REDUCTIONS) and not is_source(f, t):
                    continue
                dl = t.dest.local
                dty = f.local_ty(dl)
                if dty.startswith(SORTED_TYPES) or dty in ("()", "bool", "usize", "!"):
                    pass
                elif dl not in T and dl not in sorted_locals:
                    T[dl] = src
                    changed = True
                # ordered containers that receive tainted data through &mut
                if not is_source(f, t):
                    for a in t.args:
                        if a.place is not None and not a.place.proj:
                            root = refs.get(a.place.local)
                            aty = f.local_ty(a.place.local)
                            if root is not None and aty.startswith("&mut ") and f.local_ty(root).startswith(ORDERED_TYPES) \
                                    and root not in T and root not in sorted_locals and not tainted_op(a):
                                T[root] = src
                                changed = True
        # ---- record sources that taint something
        for b in blocks:
            if b.cleanup:
                continue
            t = b.term
            if t.k == "call" and (is_source(f, t) or is_hash_retain(t)) and not self.allow_sources(f, t):
                self.sources.append((f, t))
        # ---- sinks
        cfg = CFG(f)
        in_t_loop = {}   # block -> source
        for b in blocks:
            if b.cleanup:
                continue
            t = b.term
            if t.k == "call" and (t.path or "").endswith("::next") and t.args and tainted_op(t.args[0]):
                if cfg.reaches(b.idx, b.idx):
                    # loop body region: reachable from the call's target, cut at the next() block
                    region = cfg.reach_from(t.target, cut={b.idx}) if t.target is not None else set()
                    cyc = {x for x in region if cfg.reaches(x, b.idx)}
                    for x in cyc:
                        in_t_loop.setdefault(x, src_of(t.args[0]))
                    # S3: early exit carrying item data
                    for x in region - cyc:
                        for s in blocks[x].stmts:
                            if s.lhs.local == 0 and any(tainted_op(o) for o in s.rv.ops):
                                self.findings.append(Finding(f, src_of(t.args[0]), "S3", s, "value returned from inside a hash-ordered loop depends on the item met first"))
                        tt = blocks[x].term
                        if tt.k == "call" and (tt.declared or "").endswith("FromResidual::from_residual") and any(tainted_op(a) for a in tt.args):
                            self.findings.append(Finding(f, src_of(t.args[0]), "S3", tt, "error propagated from inside a hash-ordered loop depends on the item met first"))
                else:
                    self.findings.append(Finding(f, src_of(t.args[0]), "S1", t, "first element of a hash-ordered iteration is extracted"))
        for b in blocks:
            if b.cleanup:
                continue
            t = b.term
            if t.k != "call":
                continue
            p = t.path or ""
            if any("log" == m or m.startswith("log::") or m.startswith("$crate::log") for m in t.mac):
                continue
            targ = [a for a in t.args if tainted_op(a)]
            if targ and p.endswith(S1) and self._is_iterish(f, targ[0]):
                self.findings.append(Finding(f, src_of(targ[0]), "S1", t, "position-dependent adaptor on a hash-ordered iteration"))
            is_s2 = p.endswith(S2_SUFFIX) or p.startswith(S2_PREFIX)
            if not is_s2 and b.idx in in_t_loop and p in getattr(self, "_sinkfns", ()) and p in self.db.fns:
                self.findings.append(Finding(f, in_t_loop[b.idx], "S2", t, "a function that mutates ordered state is called once per item of a hash-ordered iteration"))
            if is_s2 and b.idx in in_t_loop:
                self.findings.append(Finding(f, in_t_loop[b.idx], "S2", t, "ordered accumulation inside a loop over a hash collection"))
            elif is_s2 and targ and self._is_iterish(f, targ[0]):
                self.findings.append(Finding(f, src_of(targ[0]), "S2", t, "hash-ordered sequence is appended to an ordered container"))
            if p.endswith("::collect") or p.endswith("::from_iter") or p.endswith("::unzip") or p.endswith("::partition"):
                if targ:
                    dty = f.local_ty(t.dest.local)
                    if dty.startswith(("alloc::string::String", "indexmap::")) or ", indexmap::" in dty:
                        self.findings.append(Finding(f, src_of(targ[0]), "S2", t, "hash-ordered sequence collected into an insertion-ordered container"))
            # closures invoked per item of a tainted iteration
            # closures created inside a hash-ordered loop run once per item
            if b.idx in in_t_loop and depth < 4:
                for s in b.stmts:
                    if s.rv.k == "agg" and "closure" in s.rv.j:
                        cf = self.db.fns.get(s.rv.j["closure"])
                        if cf is not None:
                            self._closure(cf, in_t_loop[b.idx], f)
            if (targ or is_hash_retain(t)) and (p.endswith(PER_ITEM_ADAPTORS) or is_hash_retain(t)):
                src = src_of(targ[0]) if targ else t
                for fa in t.fnargs:
                    cf = self.db.fns.get(strip_generics(fa))
                    if cf is not None and "{closure" in cf.id and depth < 4:
                        self._closure(cf, src, f)
            # local callees that receive hash-ordered data through a parameter
            if targ and p in self.db.fns and "{closure" not in p and depth < 2 and p != f.id:
                g = self.db.fns[p]
                init2 = {}
                for i, a in enumerate(t.args):
                    if tainted_op(a) and self._is_iterish(f, a) and i + 1 <= g.arg_count:
                        init2[i + 1] = src_of(a)
                if init2:
                    self.analyse(g, init2, depth=depth + 1)
        # ---- summary: returns tainted data?
        ret_t = 0 in T and 0 not in sorted_locals
        if "{closure" not in f.id:
            old = self.returns_t.get(f.id)
            if ret_t and old is None:
                rty = f.local_ty(0)
                if not rty.startswith(SORTED_TYPES) and rty not in ("()", "bool", "usize") and not rty.startswith(HASH_TY_PREFIX):
                    self.returns_t[f.id] = T[0]
                    return True
        return False

    def _is_iterish(self, f, o):
        ty = f.local_ty(o.place.local)
        return not ty.startswith(HASH_TY_PREFIX + ("&std::collections::hash::", "&mut std::collections::hash::"))

    def _closure(self, cf, src, parent):
        """closure body executed once per item in hash order: every ordered accumulation in it is a sink."""
        init = {l: src for l in range(2, cf.arg_count + 1)}
        for b in cf.blocks:
            if b.cleanup:
                continue
            t = b.term
            if t.k != "call":
                continue
            p = t.path or ""
            if any(m.startswith(("log::", "$crate::log")) for m in t.mac):
                continue
            if p.endswith(S2_SUFFIX) or p.startswith(S2_PREFIX):
                self.findings.append(Finding(cf, src, "S2", t, "ordered accumulation inside a closure invoked per item of a hash collection"))
            for fa in t.fnargs:
                c2 = self.db.fns.get(strip_generics(fa))
                if c2 is not None and "{closure" in c2.id and c2.id != cf.id and p.endswith(PER_ITEM_ADAPTORS):
                    pass
        self.analyse(cf, init, depth=3)
