"""C13 — printing a parsed document and re-parsing it gives the same document (structural part)."""
import re
from collections import defaultdict
from cfg import CFG
from prov import narrow
from pat import *
from facts import Operand, strip_generics
from fmtdecode import arguments_text, decode_template

EXPLANATION = ("structural rules over DocumentPrinter: every field of every AST node (including member doc comments) is read by the "
               "printer, no wildcard arm swallows an AST variant, identifier/string/package text is copied from the source span (the "
               "lossy `string`/`value` fields are never printed), every keyword or symbol a production's parser consumes is emitted by "
               "the printer method of the same node type, separators in comma-delimited lists are emitted after every non-last item, "
               "and the short forms of `new` are guarded by the argument count. Necessary conditions of round-tripping; tree identity "
               "is not decided")

PR = "wac_parser::ast::printer::DocumentPrinter::"
AST = "wac_parser::ast::"
LOSSY = {("wac_parser::ast::Ident", "string"), ("wac_parser::ast::String", "value"), ("wac_parser::ast::import::PackagePath", "string"),
         ("wac_parser::ast::import::PackageName", "string"), ("wac_parser::ast::import::PackagePath", "name"),
         ("wac_parser::ast::import::PackageName", "name"), ("wac_parser::ast::import::PackagePath", "segments")}
# fields that carry no concrete syntax of their own
NO_SYNTAX = {"span": "composite spans are positions, not syntax",
             "version": "versions are printed as part of the package name/path token text (source span)",
             "string": "lossy copy of the token text; the printer copies the source span instead",
             "value": "lossy copy of the token text; the printer copies the source span instead",
             "name": "lossy copy of the token text; the printer copies the source span instead",
             "segments": "printed as part of the package path token text (source span)"}


def printer_fns(db):
    return [f for f in db.fns.values() if f.id.startswith(PR)]


def literal_text(ctx, f):
    """all literal text written by a printer body (format templates and write_str constants)."""
    prov = ctx.prov
    out = []
    for t in f.calls():
        p = t.path or ""
        if p.endswith(("Write::write_fmt", "Write::write_str", "Formatter::write_str")):
            for a in t.args[1:]:
                v = a.const_value()
                if v and v[0] == "str":
                    out.append(v[1])
                else:
                    tx = arguments_text(prov, f, a)
                    if tx:
                        out.append(tx)
    return " ".join(out)


def run(ctx):
    db, prov = ctx.db, ctx.prov
    fns = printer_fns(db)
    ctx.ob("R13.1", "anchor", len(fns) >= 45, "printer bodies: %d" % len(fns), nontrivial=False)
    read = set()
    for f in fns:
        ctx.touch(f)
        for s in f.stmts():
            for pl in [s.lhs, s.rv.place] + [o.place for o in s.rv.ops]:
                if pl is not None:
                    read |= set(pl.fields())
        for t in f.calls():
            for a in t.args:
                if a.place is not None:
                    read |= set(a.place.fields())
    # accessor methods of AST nodes called by the printer (e.g. ExternName::span) read on its behalf
    for f in fns:
        for c in db.callees(f, include_closures=False):
            g = db.fns.get(c)
            if g is not None and g.id.startswith(AST) and not g.id.startswith(PR) and g.impl_adt and g.impl_adt.startswith(AST):
                for s in g.stmts():
                    for pl in [s.lhs, s.rv.place] + [o.place for o in s.rv.ops]:
                        if pl is not None:
                            read |= set(pl.fields())
    # ---- R13.1 field coverage over the AST reachable from Document
    adts = {k: v for k, v in db.adts.items() if k.startswith(AST) and v.get("local")}
    reach = set()
    work = [AST + "Document"]
    while work:
        k = work.pop()
        if k in reach or k not in adts:
            continue
        reach.add(k)
        for v in adts[k]["variants"]:
            for fl in v["fields"]:
                work.extend(m for m in fl["adts"] if m in adts)
    n = 0
    for k in sorted(reach):
        a = adts[k]
        if k.endswith(("::Error", "printer::DocumentPrinter", "::Lookahead", "::Found", "::Expected")):
            continue
        for v in a["variants"]:
            for fl in v["fields"]:
                label = "%s%s.%s" % (k.split("::")[-1], ("::" + v["name"]) if a["kind"] == "enum" else "", fl["name"])
                n += 1
                if (fl["name"], k, v["name"]) in read:
                    ctx.ob("R13.1", "field|" + label, True, "read by the printer")
                    continue
                # primitive type variants carry only a span payload: `Type::U8(_)`
                if fl["ty"].endswith("SourceSpan") or fl["name"] in NO_SYNTAX and (k, fl["name"]) in LOSSY | {(k, "span"), (k, "version")}:
                    ctx.ob("R13.1", "field|" + label, True, "no syntax of its own: " + NO_SYNTAX.get(fl["name"], "a bare source position"), nontrivial=False)
                    continue
                ctx.ob("R13.1", "field|" + label, False, "`%s` is never read by the printer: the construct is dropped when printing" % label, site=a.get("span", ""))
    ctx.floor("R13.1", 80)

    # ---- R13.2 no swallowed AST variants: a switch on an AST enum's discriminant with a live `otherwise`
    for f in fns:
        cfg = CFG(f)
        d = prov.defs(f)
        for b in f.blocks:
            if b.cleanup or b.term.k != "switch":
                continue
            op = Operand(b.term.j["discr"])
            if op.place is None:
                continue
            adt = None
            for kind, site in d.defs.get(op.place.local, ()):
                if kind == "stmt" and site.rv.k == "discr":
                    adt = site.rv.j.get("adt")
            if not adt or not adt.startswith(AST):
                continue
            other = b.term.j["otherwise"]
            live = cfg.blocks[other].term.k != "unreachable"
            listed = {v for v, _ in b.term.j["targets"]}
            allv = db.adt(adt)["variants"]
            swallowed = [v["name"] for v in allv if v["discr"] not in listed]
            # an `if let` (one explicit arm) is a test, not a dispatch
            bad = live and len(swallowed) > 1 and len(listed) >= 2
            ctx.ob("R13.2", "match|%s|%s" % (f.id.rsplit("::", 1)[1], adt.split("::")[-1]), not bad,
                   "every variant of %s has its own arm" % adt.split("::")[-1] if not bad else
                   "a wildcard arm swallows the variants %s of %s" % (swallowed, adt.split("::")[-1]), site="%s in %s" % (b.term.span, f.id))
    ctx.floor("R13.2", 15)

    # ---- R13.3 lossless names
    for (n_, o, v) in sorted(read):
        if (o, n_) in LOSSY:
            ctx.ob("R13.3", "lossy|%s.%s" % (o.split("::")[-1], n_), False,
                   "the printer reads the lossy field `%s.%s` (the `%%` escape / quotes / version are stripped from it): text must be copied from the source span" % (o.split("::")[-1], n_))
    srcs = sum(1 for f in fns for t in f.calls() if t.path == PR + "source")
    ctx.ob("R13.3", "source-copies", srcs >= 40, "identifier/string/package text is copied from source spans at %d sites; no lossy field is read" % srcs)

    token_coverage(ctx, fns)
    comma_discipline(ctx, fns)
    short_forms(ctx)
    docs_once(ctx, fns)
    no_reach_through(ctx, fns)
    no_text_guards(ctx, fns)
    declaration_order(ctx, fns)
    uniform_elements(ctx, fns)
    doc_line_normal_form(ctx, fns)


def no_reach_through(ctx, fns):
    """R13.9: a node that has its own printer method is printed *by that method*.  When a printer method descends into a
    child it passes the child as a whole; reading a field of the child (`e.inner.primary` instead of `e.inner`) and printing
    only that part drops everything else the child's method prints (here: the postfix accesses of a parenthesised
    expression)."""
    db, prov = ctx.db, ctx.prov
    # AST types that have a dedicated printer method: the (single) AST reference parameter of each printer fn
    own = {}
    for f in fns:
        if "{closure" in f.id:
            continue
        for i in range(2, f.arg_count + 1):
            m = re.match(r"&(?:'\w+ )?(wac_parser::)?(ast::[\w:#]+)", f.local_ty(i))
            if m:
                own.setdefault("wac_parser::" + m.group(2).replace("r#", ""), set()).add(f.id.rsplit("::", 1)[-1])
    n = 0
    for f in fns:
        if "{closure" in f.id:
            continue
        me = set()
        for i in range(2, f.arg_count + 1):
            m = re.match(r"&(?:'\w+ )?(wac_parser::)?(ast::[\w:#]+)", f.local_ty(i))
            if m:
                me.add("wac_parser::" + m.group(2).replace("r#", ""))
        for t in f.calls():
            if not (t.path or "").startswith(PR) or t.path == PR + "source" or len(t.args) < 2:
                continue
            for a in t.args[1:]:
                if a.place is None:
                    continue
                sl = narrow(prov, f, a)
                owners = [(o.replace("r#", ""), nm) for nm, o, v in sl.fields if o.startswith(AST)]
                through = sorted({(o, nm) for o, nm in owners if o in own and o not in me})
                n += 1
                if through:
                    o, nm = through[0]
                    ctx.ob("R13.9", "whole-child|%s|%s.%s" % (f.id.rsplit("::", 1)[-1], o.split("::")[-1], nm), False,
                           "`%s` prints only the field `%s` of a %s it reaches through a child, bypassing `%s` (the printer of %s): whatever else that method prints is dropped"
                           % (f.id.rsplit("::", 1)[-1], nm, o.split("::")[-1], "/".join(sorted(own[o])), o.split("::")[-1]), site="%s in %s" % (t.span, f.id))
    ctx.ob("R13.9", "whole-child", n >= 40, "printer-to-printer calls checked for reach-through: %d" % n)


def no_text_guards(ctx, fns):
    """R13.10: whether a clause is printed depends on whether the tree has it (an `Option` being `Some`, a list being
    non-empty), never on comparing two pieces of source text: `import x as x: …` has an `as` clause although both texts are
    equal, and dropping it changes the re-parsed tree."""
    db, prov = ctx.db, ctx.prov
    n = 0
    for f in fns:
        for t in f.calls():
            if not (t.declared or "").endswith(("PartialEq::eq", "PartialEq::ne")):
                continue
            if not any("str" in g or "String" in g for g in t.gen_args[:2]):
                continue
            n += 1
            both = all(any((c.path or "") == PR + "source" for _, c in prov.slice(f, a).calls) for a in t.args[:2])
            ctx.ob("R13.10", "text-guard|%s" % f.id.rsplit("::", 1)[-1], not both,
                   "comparison does not involve two source texts" if not both else
                   "`%s` decides what to print by comparing two source texts: a clause the tree has is omitted when the texts happen to be equal (the re-parsed tree differs)" % f.id.rsplit("::", 1)[-1],
                   site="%s in %s" % (t.span, f.id))
    ctx.ob("R13.10", "text-guard-scan", True, "string comparisons in the printer: %d" % n, nontrivial=False)


def declaration_order(ctx, fns):
    """R13.11: the AST declares the parts of a construct in the order the grammar writes them (`ok` before `err`, `id` before
    `ty`, …) and the printer emits them in that order: when two printer calls in one method print two different fields of
    the same node and one call dominates the other, the dominating call prints the field declared first."""
    db, prov = ctx.db, ctx.prov
    n = 0
    for f in fns:
        if "{closure" in f.id:
            continue
        cfg = CFG(f)
        sites = []
        for t in f.calls():
            if not (t.path or "").startswith(PR) or len(t.args) < 2:
                continue
            for a in t.args[1:]:
                if a.place is None:
                    continue
                for (nm, o, v) in narrow(prov, f, a).fields:
                    if o.startswith(AST) and o in db.adts:
                        vs = [x for x in db.adts[o]["variants"] if x["name"] == v or len(db.adts[o]["variants"]) == 1]
                        if vs:
                            names = [fl["name"] for fl in vs[0]["fields"]]
                            if nm in names:
                                sites.append((t, o, v, nm, names.index(nm)))
        for i, (t1, o1, v1, n1, k1) in enumerate(sites):
            for (t2, o2, v2, n2, k2) in sites[i + 1:]:
                if (o1, v1) != (o2, v2) or n1 == n2 or t1.bb == t2.bb:
                    continue
                if cfg.dominates(t1.bb, t2.bb):
                    a, b, first = (n1, k1), (n2, k2), t1
                elif cfg.dominates(t2.bb, t1.bb):
                    a, b, first = (n2, k2), (n1, k1), t2
                else:
                    continue
                n += 1
                if a[1] > b[1]:
                    ctx.ob("R13.11", "order|%s|%s::%s" % (f.id.rsplit("::", 1)[-1], o1.split("::")[-1], v1), False,
                           "`%s` prints `%s` before `%s` although %s%s declares (and the grammar writes) `%s` first: the re-parsed tree has the two exchanged"
                           % (f.id.rsplit("::", 1)[-1], a[0], b[0], o1.split("::")[-1], "::" + v1 if v1 != o1.split("::")[-1] else "", b[0]),
                           site="%s in %s" % (first.span, f.id))
    ctx.ob("R13.11", "order", n >= 30, "ordered pairs of printed fields checked: %d" % n)


def uniform_elements(ctx, fns):
    """R13.12: every element of a list is printed with the same parts.  When a printer method reads fields of a list's element
    type both inside a loop and outside it (first element special-cased), the two places read the same fields — otherwise
    a rename / type / docs that only the special-cased element gets is lost on the others."""
    db, prov = ctx.db, ctx.prov
    # element types of Vec<..> fields of AST nodes
    elems = set()
    for k, a in db.adts.items():
        if k.startswith(AST) and a.get("local"):
            for v in a["variants"]:
                for fl in v["fields"]:
                    m = re.match(r"alloc::vec::Vec<(?:wac_parser::)?(ast::[\w:#]+)", fl["ty"])
                    if m:
                        elems.add("wac_parser::" + m.group(1).replace("r#", ""))
    n = 0
    for f in fns:
        if "{closure" in f.id:
            continue
        cfg = CFG(f)
        per = {}
        for st in list(f.stmts()) + list(f.calls()):
            places = ([st.rv.place] + [o.place for o in st.rv.ops]) if hasattr(st, "rv") else [a.place for a in st.args]
            for pl in places:
                if pl is None:
                    continue
                for nm, o, v in pl.fields():
                    o_ = o.replace("r#", "")
                    if o_ in elems and nm not in ("span", "docs"):
                        per.setdefault(o_, {True: set(), False: set()})[cfg.reaches(st.bb, st.bb)].add(nm)
        for o, d in per.items():
            if d[True] and d[False]:
                n += 1
                ctx.ob("R13.12", "uniform|%s|%s" % (f.id.rsplit("::", 1)[-1], o.split("::")[-1]), d[True] == d[False],
                       "elements printed inside and outside the loop get the same parts" if d[True] == d[False] else
                       "`%s` prints %s for the %s handled outside the loop but %s for those in the loop: parts of the other elements are dropped"
                       % (f.id.rsplit("::", 1)[-1], sorted(d[False]), o.split("::")[-1], sorted(d[True])), site=f.span)
    ctx.ob("R13.12", "uniform-scan", True, "special-cased list elements found: %d" % n, nontrivial=False)


def docs_once(ctx, fns):
    """R13.7: the doc comments of a node are printed exactly once per visit — for every AST struct that has a `docs`
    field there is exactly one `DocumentPrinter::docs(&node.docs)` call site in the whole printer (a second site, e.g. in
    the parent's loop *and* in the node's own method, doubles the comments on every print/parse cycle)."""
    db, prov = ctx.db, ctx.prov
    sites = {}
    owners = sorted(k for k, a in db.adts.items() if k.startswith(AST) and a.get("local") and a["kind"] == "struct"
                    and any(fl["name"] == "docs" for v in a["variants"] for fl in v["fields"]))
    for o in owners:
        sites[o] = []
    for f in fns:
        for t in f.calls():
            if t.path != PR + "docs" or len(t.args) < 2:
                continue
            sl = narrow(prov, f, t.args[1])
            for (n, o, v) in sl.fields:
                if n == "docs" and o in sites:
                    sites[o].append("%s (%s)" % (f.id.rsplit("::", 1)[1], t.span))
    for o in owners:
        k = len(sites[o])
        ctx.ob("R13.7", "docs-once|" + o.split("::")[-1], k == 1,
               "`%s.docs` is printed at exactly one site: %s" % (o.split("::")[-1], sites[o][0]) if k == 1 else
               ("`%s.docs` is never printed: the doc comments are dropped" % o.split("::")[-1] if k == 0 else
                "`%s.docs` is printed at %d sites (%s): every print/parse cycle multiplies the doc comments" % (o.split("::")[-1], k, "; ".join(sites[o]))),
               site=db.adts[o].get("span", ""))
    ctx.floor("R13.7", 12)


def doc_line_normal_form(ctx, fns):
    """R13.8: the parser stores a doc comment trimmed (`str::trim` in the comment-token conversion), and the printer emits
    one `///` comment per *line*; each emitted line is therefore re-read trimmed, so it must be emitted trimmed — the
    text interpolated into the `/// {}` write passes through `str::trim` — or the second print differs from the first."""
    db, prov = ctx.db, ctx.prov
    f = db.fn(PR + "docs")
    ctx.touch(f)
    g = db.fns.get("wac_parser::lexer::Lexer::comments")
    ptrim = sum(1 for t in g.calls() if (t.path or "") == "core::str::trim") if g is not None else 0
    ctx.ob("R13.8", "parser-trims", ptrim >= 2, "the parser's doc-comment conversion (Lexer::comments) trims the comment text at %d sites" % ptrim, nontrivial=False)
    ws = [t for t in f.calls() if (t.path or "").endswith("Write::write_fmt")]
    n = 0
    for t in ws:
        sl = prov.slice(f, t.args[1])
        if not sl.has_call("core::str::lines") and not sl.has_field("comment", "DocComment"):
            continue
        n += 1
        ok = any((c.path or "") == "core::str::trim" for _, c in sl.calls)
        ctx.ob("R13.8", "doc-line-trimmed", ok, "each doc line is written through str::trim (what re-parsing would store)" if ok else
               "a doc line is written verbatim: an interior line of a block doc comment keeps its indentation / trailing blanks, is re-read trimmed, "
               "and the second print differs from the first (formatting is not idempotent)", site="%s in %s" % (t.span, f.id))
    ctx.ob("R13.8", "count", n >= 1, "doc-line writes found: %d" % n, nontrivial=False)


def parser_tokens(ctx, ty):
    """tokens consumed directly by <ty as Parse>::parse (mandatory or optional), as variant names."""
    db, prov = ctx.db, ctx.prov
    short = ty.split("::")[-1]
    out = set()
    found = False
    for k, f in db.fns.items():
        if re.match(r"wac_parser::<ast::([\w#]+::)*%s(<'a>)? as ast::Parse<'a>>::parse$" % re.escape(short), k):
            found = True
            for t in f.calls():
                if t.path in ("wac_parser::ast::parse_token", "wac_parser::ast::parse_optional", "wac_parser::ast::parse_delimited"):
                    for a in t.args[1:2]:
                        c = prov.const_of(f, a)
                        if c and c[0] == "variant":
                            out.add(c[2])
    return out if found else None


def token_spellings(ctx):
    import c12
    return {k: v[1] for k, v in c12.token_attrs(ctx).items() if v[0] == "token"}


def token_coverage(ctx, fns):
    """R13.4 (lite): tokens the parser of X consumes ⊆ literal text of the printer method taking &X."""
    db, prov = ctx.db, ctx.prov
    spell = token_spellings(ctx)
    n = 0
    for f in fns:
        if "{closure" in f.id or f.arg_count < 2:
            continue
        ty = f.locals[2].lstrip("&")
        m = re.match(r"(ast::[\w:#]+)", ty)
        if not m:
            continue
        toks = parser_tokens(ctx, m.group(1))
        if not toks:
            continue
        text = literal_text(ctx, f)
        # literal text of directly called helper printers that take the same node (e.g. docs) is not needed
        missing = []
        for t in sorted(toks):
            sp = spell.get(t)
            if sp is None:
                continue
            if sp not in text:
                missing.append("%s `%s`" % (t, sp))
        n += 1
        name = f.id.rsplit("::", 1)[1]
        ctx.ob("R13.4", "tokens|%s" % name, not missing,
               "every keyword/symbol consumed by <%s as Parse> is emitted by DocumentPrinter::%s" % (m.group(1).split("::")[-1], name) if not missing else
               "DocumentPrinter::%s never emits %s although <%s as Parse> consumes it: the printed text does not re-parse to the same node" % (name, ", ".join(missing), m.group(1).split("::")[-1]),
               site=f.span)
    ctx.floor("R13.4", 25)


def comma_discipline(ctx, fns):
    """R13.5: inside a loop over a list, an arm that writes text for an item writes the separator on every path
    unless the omission is control-dependent on a last-index test (len / enumerate index)."""
    db, prov = ctx.db, ctx.prov
    f = db.fn(PR + "new_expr")
    cfg = CFG(f)
    nexts = [t for t in f.calls() if (t.path or "").endswith("::next") and cfg.reaches(t.bb, t.bb)]
    ctx.ob("R13.5", "anchor", len(nexts) >= 1, "argument loop found in new_expr", nontrivial=False)
    for nx in nexts:
        sw = cfg.blocks[nx.target].term if nx.target is not None else None
        if sw is None or sw.k != "switch":
            continue
        some = [tg for v, tg in sw.j["targets"] if v == 1]
        if not some:
            continue
        # the switch over the argument kind
        body = {x for x in cfg.reach_from(some[0], cut={nx.bb}) if cfg.reaches(x, nx.bb)}
        arms = None
        for b in sorted(body):
            t = cfg.blocks[b].term
            if t.k == "switch":
                d = prov.defs(f)
                op = Operand(t.j["discr"])
                adt = None
                if op.place is not None:
                    for kind, site in d.defs.get(op.place.local, ()):
                        if kind == "stmt" and site.rv.k == "discr":
                            adt = site.rv.j.get("adt")
                if adt and adt.endswith("InstantiationArgument"):
                    arms = [(db.variant_by_discr(adt, v), tg) for v, tg in t.j["targets"]]
                    if cfg.blocks[t.j["otherwise"]].term.k != "unreachable":
                        arms.append(("_", t.j["otherwise"]))
        if not arms:
            continue
        for name, tg in arms:
            # every path from the arm back to the loop head writes a `,` — or passes a last-index test
            writes = []
            for b in body:
                t = cfg.blocks[b].term
                if t.k == "call" and (t.path or "").endswith("Write::write_fmt"):
                    txt = " ".join(arguments_text(prov, f, a) for a in t.args[1:])
                    if "," in txt:
                        writes.append(b)
            lastidx = []
            for b in body:
                t = cfg.blocks[b].term
                if t.k == "switch":
                    sl = prov.slice(f, Operand(t.j["discr"]))
                    if sl.has_call("::len") and (sl.has_call("enumerate") or "Add" in sl.binops or "AddWithOverflow" in sl.binops or "Lt" in sl.binops):
                        lastidx.append(b)
            ok = cfg.must_pass(writes + lastidx, src=tg, dsts={nx.bb})
            ctx.ob("R13.5", "separator|new_expr|%s" % name, ok,
                   "the `%s` argument is followed by a separator unless it is the last argument" % name if ok else
                   "the `%s` argument can be printed without a separator although another argument follows (it re-parses as a different argument)" % name,
                   site=f.span)
    ctx.floor("R13.5", 4)


def short_forms(ctx):
    """R13.6: the `{}` and `{ ... }` short forms of `new` return early only under a test of the argument count."""
    db, prov = ctx.db, ctx.prov
    f = db.fn(PR + "new_expr")
    cfg = CFG(f)
    # early returns: blocks that write text containing `}` and reach return without passing the argument loop
    nexts = [t.bb for t in f.calls() if (t.path or "").endswith("::next") and cfg.reaches(t.bb, t.bb)]
    n = 0
    for t in f.calls():
        if not (t.path or "").endswith("Write::write_fmt"):
            continue
        txt = " ".join(arguments_text(prov, f, a) for a in t.args[1:])
        if "}" not in txt or cfg.reaches(t.bb, t.bb):
            continue
        if any(cfg.dominates(nb, t.bb) for nb in nexts):
            continue   # the closing brace after the loop
        n += 1
        # guarded by a comparison involving len()/is_empty() of the arguments
        guards = []
        for b in f.blocks:
            if b.term.k == "switch" and cfg.dominates(b.idx, t.bb) and b.idx != t.bb:
                sl = prov.slice(f, Operand(b.term.j["discr"]))
                # `.len()` / `.is_empty()` or the length read by a slice pattern (`[]`, `[x]`: MIR reads the slice's PtrMetadata)
                if sl.has_field("arguments") and (sl.has_call("::len") or sl.has_call("::is_empty") or "PtrMetadata" in sl.binops or "Len" in sl.binops):
                    guards.append(b.idx)
        ok = bool(guards)
        ctx.ob("R13.6", "short-form|%s" % ("fill" if "..." in txt else "empty"), ok,
               "the short form `%s` is printed only under a test of the number of arguments" % txt.strip() if ok else
               "the short form `%s` is printed without checking how many arguments there are: further arguments are dropped" % txt.strip(),
               site="%s in %s" % (t.span, f.id))
    ctx.ob("R13.6", "count", n >= 2, "short forms found: %d" % n, nontrivial=False)
