//! wacfacts: rustc_private fact extractor.
//!
//! Injected as RUSTC_WORKSPACE_WRAPPER under `cargo +nightly check`.  For every
//! workspace crate it serialises, as JSON, the pre-coroutine MIR of every body
//! (CFG, places with field names, resolved callees, constants), the ADT
//! definitions, and the rustc invocation.  One file per crate, one write per
//! process.  Output directory: $WACFACTS_DIR.
#![feature(rustc_private)]
#![allow(clippy::all)]

extern crate rustc_abi;
extern crate rustc_data_structures;
extern crate rustc_driver;
extern crate rustc_hir;
extern crate rustc_interface;
extern crate rustc_middle;
extern crate rustc_session;
extern crate rustc_span;

use std::collections::{BTreeMap, BTreeSet};
use std::fmt::Write as _;
use std::sync::{Mutex, OnceLock};

use rustc_hir::def::DefKind;
use rustc_hir::def_id::{DefId, LocalDefId};
use rustc_middle::mir::{
    self, AggregateKind, BasicBlock, Body, Const, ConstValue, Operand, Place, PlaceElem, Rvalue,
    StatementKind, TerminatorKind,
};
use rustc_middle::util::Providers;
use rustc_middle::ty::print::{with_no_trimmed_paths, with_no_visible_paths, PrintTraitRefExt};
use rustc_middle::ty::{self, Instance, Ty, TyCtxt, TypingEnv};
use rustc_span::Span;

// ---------------------------------------------------------------------------------------------
// tiny JSON writer

fn esc(s: &str, out: &mut String) {
    out.push('"');
    for c in s.chars() {
        match c {
            '"' => out.push_str("\\\""),
            '\\' => out.push_str("\\\\"),
            '\n' => out.push_str("\\n"),
            '\r' => out.push_str("\\r"),
            '\t' => out.push_str("\\t"),
            c if (c as u32) < 0x20 => {
                let _ = write!(out, "\\u{:04x}", c as u32);
            }
            c => out.push(c),
        }
    }
    out.push('"');
}

#[derive(Clone)]
enum J {
    Null,
    B(bool),
    I(i128),
    S(String),
    A(Vec<J>),
    O(Vec<(&'static str, J)>),
    M(BTreeMap<String, J>),
}

impl J {
    fn s(x: impl Into<String>) -> J {
        J::S(x.into())
    }
    fn write(&self, out: &mut String) {
        match self {
            J::Null => out.push_str("null"),
            J::B(b) => out.push_str(if *b { "true" } else { "false" }),
            J::I(i) => {
                let _ = write!(out, "{}", i);
            }
            J::S(s) => esc(s, out),
            J::A(v) => {
                out.push('[');
                for (i, x) in v.iter().enumerate() {
                    if i > 0 {
                        out.push(',');
                    }
                    x.write(out);
                }
                out.push(']');
            }
            J::O(v) => {
                out.push('{');
                for (i, (k, x)) in v.iter().enumerate() {
                    if i > 0 {
                        out.push(',');
                    }
                    esc(k, out);
                    out.push(':');
                    x.write(out);
                }
                out.push('}');
            }
            J::M(m) => {
                out.push('{');
                for (i, (k, x)) in m.iter().enumerate() {
                    if i > 0 {
                        out.push(',');
                    }
                    esc(k, out);
                    out.push(':');
                    x.write(out);
                }
                out.push('}');
            }
        }
    }
}

// ---------------------------------------------------------------------------------------------
// global accumulators (one rustc invocation = one crate)

static FNS: Mutex<Vec<(String, String)>> = Mutex::new(Vec::new());
static FOREIGN_ADTS: Mutex<BTreeSet<(u32, u32)>> = Mutex::new(BTreeSet::new());
static STATS: Mutex<[u64; 4]> = Mutex::new([0; 4]); // bodies, calls, resolved, unresolved
static UNRESOLVED: Mutex<Vec<String>> = Mutex::new(Vec::new());

type MirProvider = for<'tcx> fn(
    TyCtxt<'tcx>,
    LocalDefId,
) -> &'tcx rustc_data_structures::steal::Steal<Body<'tcx>>;
static ORIG: OnceLock<MirProvider> = OnceLock::new();

fn my_mir<'tcx>(
    tcx: TyCtxt<'tcx>,
    def: LocalDefId,
) -> &'tcx rustc_data_structures::steal::Steal<Body<'tcx>> {
    let r = (ORIG.get().unwrap())(tcx, def);
    if want_crate(tcx) {
        let body = r.borrow();
        let (id, json) = ser_body(tcx, def, &body);
        FNS.lock().unwrap().push((id, json));
    }
    r
}

fn want_crate(tcx: TyCtxt<'_>) -> bool {
    let n = tcx.crate_name(rustc_hir::def_id::LOCAL_CRATE);
    let n = n.as_str();
    match std::env::var("WACFACTS_CRATES") {
        Ok(v) => v.split(',').any(|c| c == n),
        Err(_) => true,
    }
}

// ---------------------------------------------------------------------------------------------
// naming

fn crate_name(tcx: TyCtxt<'_>, did: DefId) -> String {
    tcx.crate_name(did.krate).to_string()
}

/// crate-qualified path of an item.  Items of trait impls are always printed as
/// `<Self as Trait>::name` (def_path_str degrades to `module::name` when both the trait and
/// the self type are foreign, which makes distinct impls collide).
fn path_of(tcx: TyCtxt<'_>, did: DefId) -> String {
    let raw = with_no_visible_paths!(with_no_trimmed_paths!(tcx.def_path_str(did)));
    let mut p = raw.clone();
    if let Some(parent) = tcx.opt_parent(did) {
        match tcx.def_kind(parent) {
            DefKind::Impl { of_trait: true } if matches!(tcx.def_kind(did), DefKind::AssocFn) => {
                let st = tcx.type_of(parent).instantiate_identity().skip_norm_wip();
                let tr = tcx.impl_trait_ref(parent).instantiate_identity().skip_norm_wip();
                let name = tcx.item_name(did);
                p = with_no_visible_paths!(with_no_trimmed_paths!(format!("<{} as {}>::{}", st, tr.print_only_trait_path(), name)));
            }
            _ => {
                if matches!(tcx.def_kind(did), DefKind::Closure | DefKind::InlineConst | DefKind::AnonConst | DefKind::SyntheticCoroutineBody) {
                    // keep the `::{closure#n}` suffix, re-derive the prefix from the parent
                    if let Some(pos) = raw.rfind("::{") {
                        let suffix = &raw[pos..];
                        let pp = path_of(tcx, parent);
                        let pp = if parent.is_local() {
                            pp.strip_prefix(&format!("{}::", crate_name(tcx, parent))).map(|x| x.to_string()).unwrap_or(pp)
                        } else {
                            pp
                        };
                        p = format!("{}{}", pp, suffix);
                    }
                }
            }
        }
    }
    if did.is_local() {
        format!("{}::{}", crate_name(tcx, did), p)
    } else {
        p
    }
}

fn ty_str<'tcx>(ty: Ty<'tcx>) -> String {
    with_no_visible_paths!(with_no_trimmed_paths!(ty.to_string()))
}

fn span_str(tcx: TyCtxt<'_>, sp: Span) -> String {
    let sm = tcx.sess.source_map();
    // walk out of macro expansions to the call site in user code
    let sp = sp.source_callsite();
    let lo = sm.lookup_char_pos(sp.lo());
    let file = match &lo.file.name {
        rustc_span::FileName::Real(r) => match r.local_path() {
            Some(p) => p.display().to_string(),
            None => format!("{:?}", lo.file.name),
        },
        other => format!("{:?}", other),
    };
    format!("{}:{}:{}", file, lo.line, lo.col.0 + 1)
}

fn macro_backtrace(sp: Span) -> J {
    let mut v = Vec::new();
    for ed in sp.macro_backtrace() {
        if let rustc_span::ExpnKind::Macro(_, name) = ed.kind {
            v.push(J::s(name.as_str()));
        } else if let rustc_span::ExpnKind::Desugaring(d) = ed.kind {
            v.push(J::s(format!("desugar:{:?}", d)));
        }
    }
    J::A(v)
}

// ---------------------------------------------------------------------------------------------
// body serialisation

struct Cx<'a, 'tcx> {
    tcx: TyCtxt<'tcx>,
    body: &'a Body<'tcx>,
    def: LocalDefId,
    env: TypingEnv<'tcx>,
}

fn note_adt(did: DefId) {
    if !did.is_local() {
        FOREIGN_ADTS.lock().unwrap().insert((did.krate.as_u32(), did.index.as_u32()));
    }
}

impl<'a, 'tcx> Cx<'a, 'tcx> {
    fn place(&self, p: &Place<'tcx>) -> J {
        let tcx = self.tcx;
        let mut pty = mir::PlaceTy::from_ty(self.body.local_decls[p.local].ty);
        let mut proj = Vec::new();
        for elem in p.projection.iter() {
            let j = match elem {
                PlaceElem::Deref => J::A(vec![J::s("deref")]),
                PlaceElem::Field(f, _) => {
                    let mut name = f.as_u32().to_string();
                    let mut owner = String::new();
                    let mut variant = String::new();
                    match pty.ty.kind() {
                        ty::Adt(adt, _) => {
                            note_adt(adt.did());
                            owner = path_of(tcx, adt.did());
                            let vi = pty.variant_index.unwrap_or(rustc_abi::FIRST_VARIANT);
                            if vi.as_usize() < adt.variants().len() {
                                let v = adt.variant(vi);
                                variant = v.name.to_string();
                                if let Some(fd) = v.fields.get(f) {
                                    name = fd.name.to_string();
                                }
                            }
                        }
                        ty::Closure(did, _) | ty::Coroutine(did, _) | ty::CoroutineClosure(did, _) => {
                            owner = format!("closure:{}", path_of(tcx, *did));
                        }
                        ty::Tuple(_) => owner = "tuple".into(),
                        _ => {}
                    }
                    J::A(vec![J::s("field"), J::S(name), J::S(owner), J::S(variant)])
                }
                PlaceElem::Index(l) => J::A(vec![J::s("index"), J::I(l.as_u32() as i128)]),
                PlaceElem::ConstantIndex { offset, from_end, .. } => {
                    J::A(vec![J::s("cindex"), J::I(offset as i128), J::B(from_end)])
                }
                PlaceElem::Subslice { from, to, from_end } => {
                    J::A(vec![J::s("subslice"), J::I(from as i128), J::I(to as i128), J::B(from_end)])
                }
                PlaceElem::Downcast(name, vi) => {
                    let n = match name {
                        Some(s) => s.to_string(),
                        None => match pty.ty.kind() {
                            ty::Adt(adt, _) if vi.as_usize() < adt.variants().len() => {
                                adt.variant(vi).name.to_string()
                            }
                            _ => vi.as_u32().to_string(),
                        },
                    };
                    let owner = match pty.ty.kind() {
                        ty::Adt(adt, _) => {
                            note_adt(adt.did());
                            path_of(tcx, adt.did())
                        }
                        _ => String::new(),
                    };
                    J::A(vec![J::s("downcast"), J::S(n), J::S(owner)])
                }
                PlaceElem::OpaqueCast(_) => J::A(vec![J::s("opaque")]),
                PlaceElem::UnwrapUnsafeBinder(_) => J::A(vec![J::s("unbinder")]),
            };
            proj.push(j);
            pty = pty.projection_ty(tcx, elem);
        }
        J::O(vec![("l", J::I(p.local.as_u32() as i128)), ("p", J::A(proj))])
    }

    fn place_ty(&self, p: &Place<'tcx>) -> Ty<'tcx> {
        p.ty(&self.body.local_decls, self.tcx).ty
    }

    fn bytes_of_alloc(&self, alloc_id: mir::interpret::AllocId, start: usize, len: usize) -> Option<Vec<u8>> {
        let ga = self.tcx.try_get_global_alloc(alloc_id)?;
        match ga {
            mir::interpret::GlobalAlloc::Memory(a) => {
                let a = a.inner();
                let bytes = a.inspect_with_uninit_and_ptr_outside_interpreter(start..start + len);
                Some(bytes.to_vec())
            }
            _ => None,
        }
    }

    fn constant(&self, c: &mir::ConstOperand<'tcx>) -> J {
        let tcx = self.tcx;
        let ty = c.const_.ty();
        let mut o: Vec<(&'static str, J)> = vec![("ty", J::S(ty_str(ty)))];
        // function items / closures as values
        match ty.kind() {
            ty::FnDef(did, args) => {
                o.push(("fn", self.callee(*did, args)));
                return J::O(vec![("const", J::O(o))]);
            }
            _ => {}
        }
        if let Const::Unevaluated(u, _) = c.const_ {
            o.push(("uneval", J::S(path_of(tcx, u.def))));
            if let Some(p) = u.promoted {
                o.push(("promoted", J::I(p.as_u32() as i128)));
            }
        }
        let val = match c.const_ {
            Const::Unevaluated(u, _) if u.promoted.is_some() => None,
            _ => c.const_.eval(tcx, self.env, c.span).ok(),
        };
        if let Some(v) = val {
            match v {
                ConstValue::Scalar(mir::interpret::Scalar::Int(si)) => {
                    let bits = si.to_bits(si.size());
                    match ty.kind() {
                        ty::Bool => o.push(("bool", J::B(bits != 0))),
                        ty::Char => o.push(("char", J::I(bits as i128))),
                        ty::Int(_) => {
                            let sz = si.size().bits();
                            let sv = if sz == 128 {
                                bits as i128
                            } else {
                                let shift = 128 - sz;
                                ((bits << shift) as i128) >> shift
                            };
                            o.push(("int", J::I(sv)))
                        }
                        ty::Uint(_) => o.push(("int", J::I(bits as i128))),
                        _ => o.push(("bits", J::I(bits as i128))),
                    }
                }
                ConstValue::Scalar(mir::interpret::Scalar::Ptr(ptr, _)) => {
                    // &[u8; N] / &T pointing into a constant allocation
                    let (prov, off) = ptr.into_raw_parts();
                    if let ty::Ref(_, inner, _) = ty.kind() {
                        if let ty::Array(elem, n) = inner.kind() {
                            if elem.is_integral() && *elem == tcx.types.u8 {
                                if let Some(n) = n.try_to_target_usize(tcx) {
                                    if let Some(b) =
                                        self.bytes_of_alloc(prov.alloc_id(), off.bytes() as usize, n as usize)
                                    {
                                        o.push(("bytes", J::S(hex(&b))));
                                    }
                                }
                            }
                        }
                    }
                }
                ConstValue::Slice { alloc_id, meta } => {
                    if let Some(b) = self.bytes_of_alloc(alloc_id, 0, meta as usize) {
                        if let ty::Ref(_, inner, _) = ty.kind() {
                            if inner.is_str() {
                                o.push(("str", J::S(String::from_utf8_lossy(&b).into_owned())));
                            } else {
                                o.push(("bytes", J::S(hex(&b))));
                            }
                        }
                    }
                }
                ConstValue::ZeroSized => {
                    o.push(("zst", J::B(true)));
                }
                ConstValue::Indirect { .. } => {
                    o.push(("indirect", J::B(true)));
                }
            }
        }
        J::O(vec![("const", J::O(o))])
    }

    fn operand(&self, op: &Operand<'tcx>) -> J {
        match op {
            Operand::Copy(p) => J::O(vec![("copy", self.place(p))]),
            Operand::Move(p) => J::O(vec![("move", self.place(p))]),
            Operand::Constant(c) => self.constant(c),
            _ => J::O(vec![("other", J::s(format!("{:?}", op)))]),
        }
    }

    /// {"path": declared path, "resolved": resolved path or null, "args": [...], "self_ty":..}
    fn callee(&self, did: DefId, args: ty::GenericArgsRef<'tcx>) -> J {
        let tcx = self.tcx;
        let declared = path_of(tcx, did);
        let mut o: Vec<(&'static str, J)> = vec![("path", J::S(declared.clone()))];
        let mut resolved = None;
        let mut rargs = args;
        match Instance::try_resolve(tcx, self.env, did, args) {
            Ok(Some(inst)) => {
                let rd = inst.def_id();
                resolved = Some(path_of(tcx, rd));
                rargs = inst.args;
                let kind = match inst.def {
                    ty::InstanceKind::Item(_) => "item",
                    ty::InstanceKind::Virtual(..) => "virtual",
                    ty::InstanceKind::ClosureOnceShim { .. } => "closure_once",
                    ty::InstanceKind::FnPtrShim(..) => "fnptr_shim",
                    ty::InstanceKind::DropGlue(..) => "drop_glue",
                    ty::InstanceKind::CloneShim(..) => "clone_shim",
                    ty::InstanceKind::Intrinsic(..) => "intrinsic",
                    ty::InstanceKind::ReifyShim(..) => "reify",
                    _ => "other",
                };
                o.push(("ikind", J::s(kind)));
                if let ty::InstanceKind::Virtual(..) = inst.def {
                    resolved = None;
                }
                if let ty::InstanceKind::FnPtrShim(..) = inst.def {
                    resolved = None;
                }
            }
            _ => {}
        }
        o.push(("resolved", match &resolved {
            Some(r) => J::S(r.clone()),
            None => J::Null,
        }));
        // is the declared item a trait method?  record the trait
        if let Some(tr) = tcx.trait_of_assoc(did) {
            o.push(("trait", J::S(path_of(tcx, tr))));
        }
        let ga: Vec<J> = args
            .iter()
            .filter_map(|a| match a.kind() {
                ty::GenericArgKind::Type(t) => Some(J::S(ty_str(t))),
                ty::GenericArgKind::Const(c) => Some(J::S(format!("const {}", c))),
                _ => None,
            })
            .collect();
        o.push(("args", J::A(ga)));
        if !std::ptr::eq(rargs, args) {
            let ga: Vec<J> = rargs
                .iter()
                .filter_map(|a| match a.kind() {
                    ty::GenericArgKind::Type(t) => Some(J::S(ty_str(t))),
                    ty::GenericArgKind::Const(c) => Some(J::S(format!("const {}", c))),
                    _ => None,
                })
                .collect();
            o.push(("rargs", J::A(ga)));
        }
        // fn-item / closure generic args are interesting for the call graph
        let mut fnargs = Vec::new();
        for a in args.iter() {
            if let ty::GenericArgKind::Type(t) = a.kind() {
                match t.kind() {
                    ty::FnDef(d, a2) => {
                        let p = match Instance::try_resolve(tcx, self.env, *d, a2) {
                            Ok(Some(i)) => path_of(tcx, i.def_id()),
                            _ => path_of(tcx, *d),
                        };
                        fnargs.push(J::S(p));
                    }
                    ty::Closure(d, _) | ty::Coroutine(d, _) | ty::CoroutineClosure(d, _) => {
                        fnargs.push(J::S(path_of(tcx, *d)));
                    }
                    _ => {}
                }
            }
        }
        if !fnargs.is_empty() {
            o.push(("fnargs", J::A(fnargs)));
        }
        J::O(o)
    }

    fn rvalue(&self, rv: &Rvalue<'tcx>) -> J {
        let tcx = self.tcx;
        match rv {
            Rvalue::Use(op, ..) => J::O(vec![("k", J::s("use")), ("op", self.operand(op))]),
            Rvalue::Ref(_, bk, p) => J::O(vec![
                ("k", J::s("ref")),
                ("mut", J::B(matches!(bk, mir::BorrowKind::Mut { .. }))),
                ("place", self.place(p)),
            ]),
            Rvalue::RawPtr(_, p) => J::O(vec![("k", J::s("rawptr")), ("place", self.place(p))]),
            Rvalue::CopyForDeref(p) => {
                J::O(vec![("k", J::s("use")), ("op", J::O(vec![("copy", self.place(p))]))])
            }
            Rvalue::Cast(kind, op, ty) => J::O(vec![
                ("k", J::s("cast")),
                ("kind", J::s(format!("{:?}", kind))),
                ("op", self.operand(op)),
                ("ty", J::S(ty_str(*ty))),
            ]),
            Rvalue::BinaryOp(op, b) => J::O(vec![
                ("k", J::s("bin")),
                ("op", J::s(format!("{:?}", op))),
                ("a", self.operand(&b.0)),
                ("b", self.operand(&b.1)),
            ]),
            Rvalue::UnaryOp(op, a) => J::O(vec![
                ("k", J::s("un")),
                ("op", J::s(format!("{:?}", op))),
                ("a", self.operand(a)),
            ]),
            Rvalue::Discriminant(p) => {
                let t = self.place_ty(p);
                let adt = match t.kind() {
                    ty::Adt(a, _) => {
                        note_adt(a.did());
                        path_of(tcx, a.did())
                    }
                    _ => ty_str(t),
                };
                J::O(vec![("k", J::s("discr")), ("place", self.place(p)), ("adt", J::S(adt))])
            }
            Rvalue::Aggregate(kind, ops) => {
                let ops_j: Vec<J> = ops.iter().map(|o| self.operand(o)).collect();
                let mut o: Vec<(&'static str, J)> = vec![("k", J::s("agg"))];
                match &**kind {
                    AggregateKind::Adt(did, vi, _, _, active) => {
                        note_adt(*did);
                        let adt = tcx.adt_def(*did);
                        let v = adt.variant(*vi);
                        o.push(("adt", J::S(path_of(tcx, *did))));
                        o.push(("variant", J::s(v.name.as_str())));
                        let names: Vec<J> = match active {
                            Some(f) => vec![J::s(v.fields[*f].name.as_str())],
                            None => v.fields.iter().map(|f| J::s(f.name.as_str())).collect(),
                        };
                        o.push(("fields", J::A(names)));
                    }
                    AggregateKind::Tuple => o.push(("tuple", J::B(true))),
                    AggregateKind::Array(_) => o.push(("array", J::B(true))),
                    AggregateKind::Closure(did, _)
                    | AggregateKind::Coroutine(did, _)
                    | AggregateKind::CoroutineClosure(did, _) => {
                        o.push(("closure", J::S(path_of(tcx, *did))));
                    }
                    AggregateKind::RawPtr(..) => o.push(("rawptr", J::B(true))),
                }
                o.push(("ops", J::A(ops_j)));
                J::O(o)
            }
            Rvalue::Repeat(op, _) => J::O(vec![("k", J::s("repeat")), ("op", self.operand(op))]),
            other => J::O(vec![("k", J::s("other")), ("dbg", J::s(format!("{:?}", other)))]),
        }
    }

    fn bb(&self, b: BasicBlock) -> J {
        J::I(b.as_u32() as i128)
    }

    fn terminator(&self, t: &mir::Terminator<'tcx>) -> J {
        let tcx = self.tcx;
        let sp = t.source_info.span;
        let mut o: Vec<(&'static str, J)> = Vec::new();
        match &t.kind {
            TerminatorKind::Goto { target } => {
                o.push(("k", J::s("goto")));
                o.push(("target", self.bb(*target)));
            }
            TerminatorKind::SwitchInt { discr, targets } => {
                o.push(("k", J::s("switch")));
                o.push(("discr", self.operand(discr)));
                let mut ts = Vec::new();
                for (v, b) in targets.iter() {
                    ts.push(J::A(vec![J::I(v as i128), self.bb(b)]));
                }
                o.push(("targets", J::A(ts)));
                o.push(("otherwise", self.bb(targets.otherwise())));
                o.push(("discr_ty", J::S(ty_str(discr.ty(&self.body.local_decls, tcx)))));
            }
            TerminatorKind::Return => o.push(("k", J::s("return"))),
            TerminatorKind::Unreachable => o.push(("k", J::s("unreachable"))),
            TerminatorKind::UnwindResume => o.push(("k", J::s("resume"))),
            TerminatorKind::UnwindTerminate(_) => o.push(("k", J::s("terminate"))),
            TerminatorKind::Drop { place, target, unwind, .. } => {
                o.push(("k", J::s("drop")));
                o.push(("place", self.place(place)));
                o.push(("target", self.bb(*target)));
                if let mir::UnwindAction::Cleanup(b) = unwind {
                    o.push(("unwind", self.bb(*b)));
                }
            }
            TerminatorKind::Call { func, args, destination, target, unwind, fn_span, .. } => {
                o.push(("k", J::s("call")));
                let fty = func.ty(&self.body.local_decls, tcx);
                let mut st = STATS.lock().unwrap();
                st[1] += 1;
                match fty.kind() {
                    ty::FnDef(did, ga) => {
                        let cj = self.callee(*did, ga);
                        if let J::O(v) = &cj {
                            let res = v.iter().any(|(k, x)| *k == "resolved" && !matches!(x, J::Null));
                            if res {
                                st[2] += 1;
                            } else {
                                st[3] += 1;
                                UNRESOLVED.lock().unwrap().push(path_of(tcx, *did));
                            }
                        }
                        o.push(("callee", cj));
                    }
                    _ => {
                        st[3] += 1;
                        UNRESOLVED.lock().unwrap().push(format!("indirect:{}", ty_str(fty)));
                        o.push(("callee", J::O(vec![
                            ("path", J::s("<indirect>")),
                            ("resolved", J::Null),
                            ("fnty", J::S(ty_str(fty))),
                            ("op", self.operand(func)),
                        ])));
                    }
                }
                drop(st);
                o.push(("args", J::A(args.iter().map(|a| self.operand(&a.node)).collect())));
                o.push(("dest", self.place(destination)));
                o.push(("target", match target {
                    Some(b) => self.bb(*b),
                    None => J::Null,
                }));
                if let mir::UnwindAction::Cleanup(b) = unwind {
                    o.push(("unwind", self.bb(*b)));
                }
                o.push(("fn_span", J::S(span_str(tcx, *fn_span))));
            }
            TerminatorKind::TailCall { func, args, .. } => {
                o.push(("k", J::s("tailcall")));
                o.push(("dbg", J::s(format!("{:?}", func))));
                o.push(("args", J::A(args.iter().map(|a| self.operand(&a.node)).collect())));
            }
            TerminatorKind::Assert { cond, expected, msg, target, unwind } => {
                o.push(("k", J::s("assert")));
                o.push(("cond", self.operand(cond)));
                o.push(("expected", J::B(*expected)));
                let kind = match &**msg {
                    mir::AssertKind::BoundsCheck { .. } => "bounds",
                    mir::AssertKind::Overflow(..) => "overflow",
                    mir::AssertKind::OverflowNeg(..) => "overflow_neg",
                    mir::AssertKind::DivisionByZero(..) => "div_zero",
                    mir::AssertKind::RemainderByZero(..) => "rem_zero",
                    mir::AssertKind::ResumedAfterReturn(..) => "resumed_after_return",
                    mir::AssertKind::ResumedAfterPanic(..) => "resumed_after_panic",
                    mir::AssertKind::ResumedAfterDrop(..) => "resumed_after_drop",
                    mir::AssertKind::MisalignedPointerDereference { .. } => "misaligned",
                    mir::AssertKind::NullPointerDereference => "null_deref",
                    mir::AssertKind::InvalidEnumConstruction(..) => "invalid_enum",
                };
                o.push(("msg", J::s(kind)));
                if let mir::AssertKind::Overflow(op, ..) = &**msg {
                    o.push(("binop", J::s(format!("{:?}", op))));
                }
                o.push(("target", self.bb(*target)));
                if let mir::UnwindAction::Cleanup(b) = unwind {
                    o.push(("unwind", self.bb(*b)));
                }
            }
            TerminatorKind::Yield { value, resume, resume_arg, drop } => {
                o.push(("k", J::s("yield")));
                o.push(("value", self.operand(value)));
                o.push(("target", self.bb(*resume)));
                o.push(("dest", self.place(resume_arg)));
                if let Some(d) = drop {
                    o.push(("drop", self.bb(*d)));
                }
            }
            TerminatorKind::CoroutineDrop => o.push(("k", J::s("coroutine_drop"))),
            TerminatorKind::FalseEdge { real_target, .. } => {
                o.push(("k", J::s("goto")));
                o.push(("target", self.bb(*real_target)));
            }
            TerminatorKind::FalseUnwind { real_target, .. } => {
                o.push(("k", J::s("goto")));
                o.push(("target", self.bb(*real_target)));
            }
            TerminatorKind::InlineAsm { .. } => o.push(("k", J::s("asm"))),
        }
        o.push(("span", J::S(span_str(tcx, sp))));
        if sp.from_expansion() {
            o.push(("mac", macro_backtrace(sp)));
        }
        J::O(o)
    }
}

fn hex(b: &[u8]) -> String {
    let mut s = String::with_capacity(b.len() * 2);
    for x in b {
        let _ = write!(s, "{:02x}", x);
    }
    s
}

fn ser_body<'tcx>(tcx: TyCtxt<'tcx>, def: LocalDefId, body: &Body<'tcx>) -> (String, String) {
    let did = def.to_def_id();
    let id = path_of(tcx, did);
    let env = TypingEnv::post_analysis(tcx, did);
    let cx = Cx { tcx, body, def, env };
    let _ = cx.def;
    let dk = tcx.def_kind(did);
    let mut o: Vec<(&'static str, J)> = Vec::new();
    o.push(("id", J::S(id.clone())));
    o.push(("kind", J::s(format!("{:?}", dk))));
    o.push(("name", J::s(tcx.opt_item_name(did).map(|s| s.to_string()).unwrap_or_default())));
    o.push(("span", J::S(span_str(tcx, body.span))));
    o.push(("from_expansion", J::B(body.span.from_expansion())));
    if matches!(dk, DefKind::Fn | DefKind::AssocFn) {
        o.push(("vis", J::s(format!("{:?}", tcx.visibility(did)))));
        o.push(("is_pub", J::B(tcx.visibility(did).is_public())));
    }
    // parent impl / trait
    if let Some(parent) = tcx.opt_parent(did) {
        match tcx.def_kind(parent) {
            DefKind::Impl { of_trait } => {
                let st = tcx.type_of(parent).instantiate_identity().skip_norm_wip();
                o.push(("impl_self", J::S(ty_str(st))));
                if let ty::Adt(a, _) = st.kind() {
                    o.push(("impl_adt", J::S(path_of(tcx, a.did()))));
                }
                if of_trait {
                    let tr = tcx.impl_trait_ref(parent).instantiate_identity().skip_norm_wip();
                    o.push(("impl_trait", J::S(path_of(tcx, tr.def_id))));
                }
            }
            DefKind::Trait => {
                o.push(("in_trait", J::S(path_of(tcx, parent))));
            }
            _ => {}
        }
        if matches!(dk, DefKind::Closure | DefKind::InlineConst | DefKind::AnonConst) {
            o.push(("parent", J::S(path_of(tcx, tcx.typeck_root_def_id(did)))));
        }
    }
    o.push(("arg_count", J::I(body.arg_count as i128)));
    let locals: Vec<J> = body.local_decls.iter().map(|d| J::S(ty_str(d.ty))).collect();
    o.push(("locals", J::A(locals)));
    // user variable names
    let mut names = BTreeMap::new();
    for vdi in &body.var_debug_info {
        if let mir::VarDebugInfoContents::Place(p) = &vdi.value {
            let key = if p.projection.is_empty() {
                p.local.as_u32().to_string()
            } else {
                // closure upvars: _1.N
                let mut s = p.local.as_u32().to_string();
                for e in p.projection.iter() {
                    match e {
                        PlaceElem::Field(f, _) => {
                            let _ = write!(s, ".{}", f.as_u32());
                        }
                        PlaceElem::Deref => s.push('*'),
                        _ => s.push('?'),
                    }
                }
                s
            };
            names.insert(key, J::s(vdi.name.as_str()));
        }
    }
    o.push(("names", J::M(names)));
    let mut blocks = Vec::new();
    for (_bb, data) in body.basic_blocks.iter_enumerated() {
        let mut stmts = Vec::new();
        for s in &data.statements {
            match &s.kind {
                StatementKind::Assign(b) => {
                    let (p, rv) = &**b;
                    let mut so = vec![("lhs", cx.place(p)), ("rv", cx.rvalue(rv))];
                    so.push(("span", J::S(span_str(tcx, s.source_info.span))));
                    if s.source_info.span.from_expansion() {
                        so.push(("mac", macro_backtrace(s.source_info.span)));
                    }
                    stmts.push(J::O(so));
                }
                StatementKind::SetDiscriminant { place, variant_index } => {
                    stmts.push(J::O(vec![
                        ("setdiscr", cx.place(place)),
                        ("variant", J::I(variant_index.as_u32() as i128)),
                    ]));
                }
                _ => {}
            }
        }
        let term = data.terminator.as_ref().map(|t| cx.terminator(t)).unwrap_or(J::Null);
        blocks.push(J::O(vec![
            ("cleanup", J::B(data.is_cleanup)),
            ("stmts", J::A(stmts)),
            ("term", term),
        ]));
    }
    o.push(("blocks", J::A(blocks)));
    STATS.lock().unwrap()[0] += 1;
    let mut s = String::new();
    J::O(o).write(&mut s);
    (id, s)
}

// ---------------------------------------------------------------------------------------------
// ADTs

fn ser_adt<'tcx>(tcx: TyCtxt<'tcx>, did: DefId) -> J {
    let adt = tcx.adt_def(did);
    let kind = if adt.is_enum() {
        "enum"
    } else if adt.is_union() {
        "union"
    } else {
        "struct"
    };
    let mut variants = Vec::new();
    let discrs: Vec<(rustc_abi::VariantIdx, ty::util::Discr<'tcx>)> =
        if adt.is_enum() { adt.discriminants(tcx).collect() } else { Vec::new() };
    for (vi, v) in adt.variants().iter_enumerated() {
        let mut fields = Vec::new();
        for f in v.fields.iter() {
            let fty = tcx.type_of(f.did).instantiate_identity().skip_norm_wip();
            let mut mentioned = BTreeSet::new();
            for t in fty.walk() {
                if let ty::GenericArgKind::Type(t) = t.kind() {
                    if let ty::Adt(a, _) = t.kind() {
                        mentioned.insert(path_of(tcx, a.did()));
                    }
                }
            }
            fields.push(J::O(vec![
                ("name", J::s(f.name.as_str())),
                ("ty", J::S(ty_str(fty))),
                ("adts", J::A(mentioned.into_iter().map(J::S).collect())),
                ("pub", J::B(f.vis.is_public())),
            ]));
        }
        let d = discrs.iter().find(|(i, _)| *i == vi).map(|(_, d)| d.val as i128);
        variants.push(J::O(vec![
            ("name", J::s(v.name.as_str())),
            ("discr", d.map(J::I).unwrap_or(J::Null)),
            ("ctor", J::s(format!("{:?}", v.ctor_kind()))),
            ("fields", J::A(fields)),
            ("span", J::S(if v.def_id.is_local() { span_str(tcx, tcx.def_span(v.def_id)) } else { String::new() })),
        ]));
    }
    J::O(vec![
        ("kind", J::s(kind)),
        ("local", J::B(did.is_local())),
        ("non_exhaustive", J::B(adt.is_variant_list_non_exhaustive())),
        ("span", J::S(if did.is_local() { span_str(tcx, tcx.def_span(did)) } else { String::new() })),
        ("variants", J::A(variants)),
    ])
}

// ---------------------------------------------------------------------------------------------
// driver

struct Cb;

impl rustc_driver::Callbacks for Cb {
    fn config(&mut self, config: &mut rustc_interface::Config) {
        config.override_queries = Some(|_sess, providers: &mut Providers| {
            let _ = ORIG.set(providers.queries.mir_drops_elaborated_and_const_checked);
            providers.queries.mir_drops_elaborated_and_const_checked = my_mir;
        });
    }

    fn after_analysis<'tcx>(
        &mut self,
        _compiler: &rustc_interface::interface::Compiler,
        tcx: TyCtxt<'tcx>,
    ) -> rustc_driver::Compilation {
        if !want_crate(tcx) {
            return rustc_driver::Compilation::Continue;
        }
        let Ok(dir) = std::env::var("WACFACTS_DIR") else {
            return rustc_driver::Compilation::Continue;
        };
        for d in tcx.hir_body_owners() {
            let dk = tcx.def_kind(d.to_def_id());
            // bodies of consts/statics have no runtime MIR of interest; they are still forced
            // so that closures inside them are seen.
            if matches!(
                dk,
                DefKind::Fn | DefKind::AssocFn | DefKind::Closure | DefKind::SyntheticCoroutineBody
            ) {
                tcx.ensure_ok().mir_drops_elaborated_and_const_checked(d);
            }
        }
        let cname = tcx.crate_name(rustc_hir::def_id::LOCAL_CRATE).to_string();
        // ADTs
        let mut adts = BTreeMap::new();
        for ld in tcx.hir_crate_items(()).definitions() {
            let did = ld.to_def_id();
            if matches!(tcx.def_kind(did), DefKind::Struct | DefKind::Enum | DefKind::Union) {
                adts.insert(path_of(tcx, did), ser_adt(tcx, did));
            }
        }
        let foreign: Vec<(u32, u32)> = FOREIGN_ADTS.lock().unwrap().iter().cloned().collect();
        for (k, i) in foreign {
            let did = DefId {
                krate: rustc_hir::def_id::CrateNum::from_u32(k),
                index: rustc_hir::def_id::DefIndex::from_u32(i),
            };
            adts.entry(path_of(tcx, did)).or_insert_with(|| ser_adt(tcx, did));
        }
        // trait impls in this crate: trait -> [(self type, {method name: fn id})]
        let mut impls = Vec::new();
        for ld in tcx.hir_crate_items(()).definitions() {
            let did = ld.to_def_id();
            if let DefKind::Impl { of_trait } = tcx.def_kind(did) {
                let st = tcx.type_of(did).instantiate_identity().skip_norm_wip();
                let mut methods = BTreeMap::new();
                for item in tcx.associated_items(did).in_definition_order() {
                    if matches!(item.kind, ty::AssocKind::Fn { .. }) {
                        methods.insert(item.name().to_string(), J::S(path_of(tcx, item.def_id)));
                    }
                }
                let mut o = vec![("self", J::S(ty_str(st)))];
                if let ty::Adt(a, _) = st.kind() {
                    o.push(("self_adt", J::S(path_of(tcx, a.did()))));
                }
                if of_trait {
                    let tr = tcx.impl_trait_ref(did).instantiate_identity().skip_norm_wip();
                    o.push(("trait", J::S(path_of(tcx, tr.def_id))));
                }
                o.push(("methods", J::M(methods)));
                o.push(("span", J::S(span_str(tcx, tcx.def_span(did)))));
                impls.push(J::O(o));
            }
        }
        let st = *STATS.lock().unwrap();
        let mut unresolved: Vec<String> = UNRESOLVED.lock().unwrap().clone();
        unresolved.sort();
        let mut ucount: BTreeMap<String, J> = BTreeMap::new();
        for u in unresolved {
            let e = ucount.entry(u).or_insert(J::I(0));
            if let J::I(n) = e {
                *n += 1;
            }
        }
        let mut out = String::new();
        out.push_str("{\"crate\":");
        esc(&cname, &mut out);
        out.push_str(",\"crate_types\":");
        J::A(tcx.crate_types().iter().map(|c| J::s(format!("{:?}", c))).collect()).write(&mut out);
        out.push_str(",\"argv\":");
        J::A(std::env::args().map(J::S).collect()).write(&mut out);
        out.push_str(",\"cwd\":");
        esc(&std::env::current_dir().map(|p| p.display().to_string()).unwrap_or_default(), &mut out);
        out.push_str(",\"env\":");
        let mut envm = BTreeMap::new();
        for (k, v) in std::env::vars() {
            if k.starts_with("CARGO_") || k == "OUT_DIR" {
                envm.insert(k, J::S(v));
            }
        }
        J::M(envm).write(&mut out);
        out.push_str(",\"stats\":");
        J::O(vec![
            ("bodies", J::I(st[0] as i128)),
            ("calls", J::I(st[1] as i128)),
            ("resolved", J::I(st[2] as i128)),
            ("unresolved", J::I(st[3] as i128)),
            ("unresolved_callees", J::M(ucount)),
        ])
        .write(&mut out);
        out.push_str(",\"adts\":");
        J::M(adts).write(&mut out);
        out.push_str(",\"impls\":");
        J::A(impls).write(&mut out);
        out.push_str(",\"fns\":{");
        let fns = FNS.lock().unwrap();
        let mut seen = BTreeSet::new();
        let mut first = true;
        for (id, js) in fns.iter() {
            if !seen.insert(id.clone()) {
                continue;
            }
            if !first {
                out.push(',');
            }
            first = false;
            esc(id, &mut out);
            out.push(':');
            out.push_str(js);
        }
        out.push_str("}}");
        let is_bin = tcx.crate_types().iter().any(|c| matches!(c, rustc_session::config::CrateType::Executable));
        let test = tcx.sess.opts.test;
        let fname = format!(
            "{}/{}{}{}.json",
            dir,
            cname,
            if is_bin { ".bin" } else { "" },
            if test { ".test" } else { "" }
        );
        let tmp = format!("{}.tmp{}", fname, std::process::id());
        std::fs::write(&tmp, out).expect("write facts");
        std::fs::rename(&tmp, &fname).expect("rename facts");
        rustc_driver::Compilation::Continue
    }
}

fn main() {
    let mut args: Vec<String> = std::env::args().collect();
    // RUSTC_WORKSPACE_WRAPPER passes the real rustc path as argv[1]
    if args.len() > 1 && (args[1].ends_with("rustc") || args[1].contains("/rustc")) {
        args.remove(1);
    }
    rustc_driver::run_compiler(&args, &mut Cb);
}
