use std::fs;
fn main() {
    let dir = std::env::args().nth(1).unwrap();
    fs::create_dir_all(&dir).unwrap();
    for n in ["a", "b", "c"] {
        let w = format!(r#"(component
  (core module $m (func (export "f")))
  (core instance $i (instantiate $m))
  (func (export "{n}") (canon lift (core func $i "f")))
)"#);
        fs::write(format!("{dir}/{n}.wasm"), wat::parse_str(&w).unwrap()).unwrap();
    }
    let socket = r#"(component (import "a" (func)) (import "b" (func)) (import "c" (func)))"#;
    fs::write(format!("{dir}/socket.wasm"), wat::parse_str(socket).unwrap()).unwrap();
}
