use wac_graph::types::{Package, Types};

fn load(wat: &str) -> Result<Package, String> {
    let bytes = wat::parse_str(wat).expect("wat");
    wasmparser::Validator::new_with_features(wasmparser::WasmFeatures::all())
        .validate_all(&bytes)
        .expect("input must be a valid component");
    let mut types = Types::default();
    Package::from_bytes("t:p", None, bytes, &mut types).map_err(|e| format!("{e:#}"))
}

// D6
#[test]
fn d6_concrete_heap_type_in_module_type() {
    let r = load(r#"(component
  (core type $mt (module
    (type (func))
    (import "a" "g" (global (ref null 0)))
  ))
  (import "m" (core module (type $mt)))
)"#);
    println!("{:?}", r.as_ref().map(|_| ()));
}

// D7
#[test]
fn d7_exact_func_import() {
    let r = load(r#"(component
  (core type $mt (module
    (type (func))
    (import "a" "f" (func (exact (type 0))))
  ))
  (import "m" (core module (type $mt)))
)"#);
    println!("{:?}", r.as_ref().map(|_| ()));
}
