//! Demonstrates an order-dependent defect that is present on the UNMODIFIED tree.
//!
//! * `test:a` needs `foo:bar/types@0.2.0` and the unversioned `foo:baz/api`,
//!   whose function `f` takes the record `x` that `api` `use`s from
//!   `foo:bar/types@0.2.0`.
//! * `test:b` needs `foo:bar/types@0.2.1` (record `x` and a function `g`).
//!
//! Both instantiations leave all of their arguments unsatisfied, so the two
//! `foo:bar/types` arguments (same `0.2` track) must share one import that is
//! named for the highest version, `foo:bar/types@0.2.1`, whatever the order in
//! which the two (independent) instantiation nodes are created.
//!
//! `b_then_a` passes; `a_then_b` fails on HEAD: the shared import comes out
//! as `foo:bar/types@0.2.0`.

use std::collections::BTreeSet;
use wac_graph::{types::Package, CompositionGraph, EncodeOptions, PackageId};
use wasmparser::{Parser, Payload};
use wit_component::{ComponentEncoder, StringEncoding};
use wit_parser::Resolve;

const A: &str = r#"
package test:a;

world w {
    import foo:bar/types@0.2.0;
    import foo:baz/api;
}

package foo:bar@0.2.0 {
    interface types {
        record x { a: u32 }
    }
}

package foo:baz {
    interface api {
        use foo:bar/types@0.2.0.{x};
        f: func(p: x);
    }
}
"#;

const B: &str = r#"
package test:b;

world w {
    import foo:bar/types@0.2.1;
}

package foo:bar@0.2.1 {
    interface types {
        record x { a: u32 }
        g: func();
    }
}
"#;

/// Builds a component (with a dummy core module) for the world in the WIT text.
fn component_from_wit(wit: &str) -> Vec<u8> {
    let mut resolve = Resolve::default();
    let id = resolve.push_str("demo.wit", wit).expect("valid wit");
    let world = resolve.select_world(&[id], None).expect("a single world");
    let mut module = wit_component::dummy_module(
        &resolve,
        world,
        wit_parser::ManglingAndAbi::Legacy(wit_parser::LiftLowerAbi::Sync),
    );
    wit_component::embed_component_metadata(&mut module, &resolve, world, StringEncoding::default())
        .expect("metadata embeds");
    ComponentEncoder::default()
        .validate(true)
        .module(&module)
        .expect("module is accepted")
        .encode()
        .expect("component encodes")
}

fn register(graph: &mut CompositionGraph, name: &str, wit: &str) -> PackageId {
    let bytes = component_from_wit(wit);
    let package = Package::from_bytes(name, None, bytes, graph.types_mut()).expect("valid package");
    graph.register_package(package).expect("package registers")
}

/// Returns the names of the top-level imports of an encoded component.
fn import_names(bytes: &[u8]) -> BTreeSet<String> {
    let mut imports = BTreeSet::new();
    let mut depth = 0usize;
    for payload in Parser::new(0).parse_all(bytes) {
        match payload.expect("valid component") {
            Payload::ComponentSection { .. } | Payload::ModuleSection { .. } => depth += 1,
            Payload::End(_) => depth = depth.saturating_sub(1),
            Payload::ComponentImportSection(section) if depth == 0 => {
                for import in section {
                    imports.insert(import.unwrap().name.0.to_string());
                }
            }
            _ => {}
        }
    }
    imports
}

/// Composes the two packages, creating the instantiation nodes in the given order.
fn compose(a_first: bool) -> BTreeSet<String> {
    let mut graph = CompositionGraph::new();
    let a = register(&mut graph, "test:a", A);
    let b = register(&mut graph, "test:b", B);

    if a_first {
        graph.instantiate(a);
        graph.instantiate(b);
    } else {
        graph.instantiate(b);
        graph.instantiate(a);
    }

    // The graph's own listing is the same in both orders
    let listed: BTreeSet<String> = graph.imports().map(|(n, _, _)| n.to_string()).collect();
    assert_eq!(listed, expected(&["foo:bar/types@0.2.0", "foo:bar/types@0.2.1", "foo:baz/api"]));

    // Components are defined inline, so the only imports are the implicit ones
    let bytes = graph
        .encode(EncodeOptions {
            define_components: true,
            validate: true,
            ..Default::default()
        })
        .expect("the composition encodes and validates");
    import_names(&bytes)
}

fn expected(names: &[&str]) -> BTreeSet<String> {
    names.iter().map(ToString::to_string).collect()
}

#[test]
fn b_then_a() {
    assert_eq!(compose(false), expected(&["foo:bar/types@0.2.1", "foo:baz/api"]));
}

#[test]
fn a_then_b() {
    assert_eq!(compose(true), expected(&["foo:bar/types@0.2.1", "foo:baz/api"]));
}
