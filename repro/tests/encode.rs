use wac_graph::{types::Package, CompositionGraph, EncodeOptions};

fn run(wat: &str) {
    let bytes = wat::parse_str(wat).expect("wat");
    wasmparser::Validator::new_with_features(wasmparser::WasmFeatures::all())
        .validate_all(&bytes)
        .expect("input must be a valid component");
    let mut g = CompositionGraph::new();
    let p = Package::from_bytes("t:p", None, bytes, g.types_mut()).unwrap();
    let p = g.register_package(p).unwrap();
    let i = g.instantiate(p);
    let _ = i;
    let out = g
        .encode(EncodeOptions { define_components: false, validate: true, processor: None })
        .expect("must encode and validate");
    let _ = out;
    g.encode(EncodeOptions::default()).expect("must encode and validate (embedded)");
}

#[test]
fn d15_module_import() {
    run(r#"(component (import "m" (core module (import "a" "f" (func)) (export "g" (func)))) )"#);
}
#[test]
fn d15_component_import() {
    run(r#"(component (import "c" (component (import "f" (func)) (export "g" (func)))) )"#);
}
#[test]
fn d15_value_import() {
    run(r#"(component (import "v" (value u32)) (export "w" (value 0)))"#);
}
#[test]
fn d15_module_export() {
    run(r#"(component (core module $m (func (export "f"))) (export "m" (core module $m)))"#);
}
#[test]
fn d15_component_export() {
    run(r#"(component (component $c (import "f" (func))) (export "c" (component $c)))"#);
}

// D18: world-level function import taking borrow<r> of an imported resource
#[test]
fn d18_borrow_param_top_level() {
    run(r#"(component
      (import "r" (type $r (sub resource)))
      (import "f" (func (param "x" (borrow $r)))))"#);
}
#[test]
fn d18_own_param_top_level() {
    run(r#"(component
      (import "r" (type $r (sub resource)))
      (import "f" (func (param "x" (own $r)))))"#);
}
