use wac_parser::Document;
use wac_parser::DocumentPrinter;

fn span_of_parse_error(src: &str) -> (usize, usize) {
    let err = Document::parse(src).expect_err("must fail");
    use wac_parser::Error::*;
    let span = match err {
        Lexer { span, .. } | Expected { span, .. } | ExpectedEither { span, .. } | ExpectedMultiple { span, .. }
        | EmptyType { span, .. } | InvalidVersion { span, .. } => span,
    };
    (span.offset(), span.len())
}

fn check_span(src: &str) {
    let (o, l) = span_of_parse_error(src);
    assert!(o + l <= src.len(), "span ({o},{l}) outside source of length {}", src.len());
    assert!(src.is_char_boundary(o), "span start {o} not on a char boundary in {src:?}");
    assert!(src.is_char_boundary(o + l), "span end {} not on a char boundary in {src:?}", o + l);
}

// D5
#[test]
fn d5_eof_span_empty_source() { check_span(""); }
#[test]
fn d5_eof_span_multibyte() { check_span("package a:b; import x: func() // é"); }
#[test]
fn d5_eof_span_multibyte2() { check_span("package a:b; import x // 日本"); check_span("package a:b; import x: func()"); check_span("package"); }

// D8
#[test]
fn d8_fill_not_last_roundtrip() {
    let src = "package a:b;\nlet x = new c:d { ..., y };\n";
    let doc = Document::parse(src).unwrap();
    let mut out = String::new();
    DocumentPrinter::new(&mut out, src, None).document(&doc).unwrap();
    let doc2 = Document::parse(&out).expect("printed text must parse");
    let j1 = format!("{:?}", strip(&doc));
    let j2 = format!("{:?}", strip(&doc2));
    assert_eq!(j1, j2, "printed:\n{out}");
}
fn strip(d: &Document) -> Vec<String> {
    // compare the shape of the argument lists only
    let mut v = vec![];
    for s in &d.statements {
        if let wac_parser::Statement::Let(l) = s {
            if let wac_parser::PrimaryExpr::New(n) = &l.expr.primary {
                for a in &n.arguments {
                    v.push(match a {
                        wac_parser::InstantiationArgument::Fill(_) => "fill".to_string(),
                        wac_parser::InstantiationArgument::Spread(i) => format!("spread {}", i.string),
                        wac_parser::InstantiationArgument::Inferred(i) => format!("inferred {}", i.string),
                        wac_parser::InstantiationArgument::Named(_) => "named".to_string(),
                    });
                }
            }
        }
    }
    v
}

// D12
#[test]
fn d12_missing_include_name_is_deterministic() {
    let src = "package a:b;\nworld base { }\nworld w { include base with { a1 as x1, a2 as x2, a3 as x3, a4 as x4, a5 as x5, a6 as x6 }; }\n";
    let mut seen = std::collections::BTreeSet::new();
    for _ in 0..16 {
        let doc = Document::parse(src).unwrap();
        let err = match doc.resolve(Default::default()) { Ok(_) => panic!("must fail"), Err(e) => e };
        seen.insert(err.to_string());
    }
    assert_eq!(seen.len(), 1, "{seen:?}");
    assert!(seen.iter().next().unwrap().contains("a1"), "{seen:?}");
}

// D17
#[test]
fn d17_targets_roundtrip() {
    let src = "package a:b targets c:d/w;\n";
    let doc = Document::parse(src).unwrap();
    let mut out = String::new();
    DocumentPrinter::new(&mut out, src, None).document(&doc).unwrap();
    let doc2 = Document::parse(&out).unwrap_or_else(|e| panic!("printed text must parse: {e:?}\n{out}"));
    assert_eq!(doc2.directive.targets.as_ref().map(|t| t.string), Some("c:d/w"));
}

#[test]
fn d19_arrow_without_result() {
    let r = Document::parse("package a:b;\ntype f = func() -> ;\n");
    println!("{:?}", r.as_ref().map(|_| "accepted").map_err(|e| e.to_string()));
    assert!(r.is_err(), "`func() ->` without a result type must be rejected");
}

// D21: a type declared in an interface/world under the name of a function export/import of the same scope:
// the duplicate is not diagnosed and the resolver's `assert!(prev.is_none(), "duplicate type in scope")` fires
#[test]
fn d21_type_named_like_a_function_in_the_same_scope() {
    for src in [
        "package test:doc;\ninterface i { f: func(); type f = u32; }\n",
        "package test:doc;\nworld w { import f: func(); type f = u32; }\n",
        "package test:doc;\ninterface i { f: func(); record f { a: u8 } }\n",
        "package test:doc;\ninterface i { r: func(); resource r; }\n",
        "package test:doc;\nworld w { import f: interface {}; enum f { a } }\n",
    ] {
        let doc = wac_parser::Document::parse(src).unwrap();
        let r = std::panic::catch_unwind(std::panic::AssertUnwindSafe(|| doc.resolve(Default::default()).map(|_| ()).map_err(|e| e.to_string())));
        match r {
            Ok(v) => println!("{src:?} -> {v:?}"),
            Err(_) => panic!("resolve panicked on {src:?}"),
        }
    }
}
