use wac_graph::{types::{Package, Types, DefinedType, PrimitiveType, ValueType, Type}, CompositionGraph, EncodeOptions};

fn pkg(types: &mut Types, name: &str, wat: &str) -> Package {
    let bytes = wat::parse_str(wat).unwrap();
    Package::from_bytes(name, None, bytes, types).unwrap()
}

const IMPORTER: &str = r#"(component (import "f" (func)) )"#;
const EXPORTER: &str = r#"(component
  (core module $m (func (export "f")))
  (core instance $i (instantiate $m))
  (func (export "f") (canon lift (core func $i "f")))
)"#;

// D1: stale satisfied bit after remove_node of the argument source
#[test]
fn d1_remove_node_clears_satisfied_args() {
    let mut g = CompositionGraph::new();
    let imp = pkg(g.types_mut(), "t:importer", IMPORTER);
    let exp = pkg(g.types_mut(), "t:exporter", EXPORTER);
    let imp = g.register_package(imp).unwrap();
    let exp = g.register_package(exp).unwrap();
    let i = g.instantiate(imp);
    let e = g.instantiate(exp);
    let f = g.alias_instance_export(e, "f").unwrap();
    g.set_instantiation_argument(i, "f", f).unwrap();
    assert_eq!(g.imports().count(), 0);
    g.remove_node(f);
    // the argument is no longer satisfied: it must show up as an implicit import again
    let names: Vec<_> = g.imports().map(|(n, _, _)| n.to_string()).collect();
    assert_eq!(names, vec!["f".to_string()]);
    g.encode(EncodeOptions::default()).expect("graph must still encode");
    // and can be set again
    let f2 = g.alias_instance_export(e, "f").unwrap();
    g.set_instantiation_argument(i, "f", f2).unwrap();
}

// D2: same via unregister_package
#[test]
fn d2_unregister_package_clears_satisfied_args() {
    let mut g = CompositionGraph::new();
    let imp = pkg(g.types_mut(), "t:importer", IMPORTER);
    let exp = pkg(g.types_mut(), "t:exporter", EXPORTER);
    let imp = g.register_package(imp).unwrap();
    let expid = g.register_package(exp).unwrap();
    let i = g.instantiate(imp);
    let e = g.instantiate(expid);
    let f = g.alias_instance_export(e, "f").unwrap();
    g.set_instantiation_argument(i, "f", f).unwrap();
    g.unregister_package(expid);
    let names: Vec<_> = g.imports().map(|(n, _, _)| n.to_string()).collect();
    assert_eq!(names, vec!["f".to_string()]);
    g.encode(EncodeOptions::default()).expect("graph must still encode");
}

// D3: node exported twice
#[test]
fn d3_double_export() {
    let mut g = CompositionGraph::new();
    let exp = pkg(g.types_mut(), "t:exporter", EXPORTER);
    let expid = g.register_package(exp).unwrap();
    let e = g.instantiate(expid);
    let f = g.alias_instance_export(e, "f").unwrap();
    g.export(f, "a").unwrap();
    match g.export(f, "b") {
        Ok(()) => {
            // if allowed, then unexport / remove must clean both
            g.unexport(f).unwrap();
            assert!(g.get_export("a").is_none(), "stale export a");
            assert!(g.get_export("b").is_none(), "stale export b");
        }
        Err(_) => {}
    }
    g.remove_node(f);
    assert!(g.get_export("a").is_none());
    assert!(g.get_export("b").is_none());
    g.encode(EncodeOptions::default()).expect("graph must still encode");
}

fn rec(g: &mut CompositionGraph, fields: &[(&str, ValueType)]) -> Type {
    let id = g.types_mut().add_defined_type(DefinedType::Tuple(fields.iter().map(|(_, t)| *t).collect()));
    Type::Value(ValueType::Defined(id))
}

// D10: diamond of type dependencies
#[test]
fn d10_diamond_removal() {
    let mut g = CompositionGraph::new();
    let a = g.types_mut().add_defined_type(DefinedType::Alias(ValueType::Primitive(PrimitiveType::U32)));
    let a_vt = ValueType::Defined(a);
    let a_ty = Type::Value(a_vt);
    let b = rec(&mut g, &[("x", a_vt)]);
    let b_vt = match b { Type::Value(v) => v, _ => unreachable!() };
    let c = rec(&mut g, &[("x", a_vt), ("y", b_vt)]);
    let na = g.define_type("a", a_ty).unwrap();
    g.define_type("c", c).unwrap();
    g.define_type("b", b).unwrap();
    g.remove_node(na);
    assert_eq!(g.node_ids().count(), 0);
}

// D4: definition order depends on hash order
#[test]
fn d4_define_type_order() {
    // build: dependants first, then base; encode; output must be identical across fresh graphs
    let mut outs = std::collections::BTreeSet::new();
    for _ in 0..12 {
        let mut g = CompositionGraph::new();
        let a = g.types_mut().add_defined_type(DefinedType::Alias(ValueType::Primitive(PrimitiveType::U32)));
        let a_vt = ValueType::Defined(a);
        let mut deps = vec![];
        for i in 0..6 {
            let t = g.types_mut().add_defined_type(DefinedType::Tuple(vec![a_vt; i + 1]));
            deps.push(Type::Value(ValueType::Defined(t)));
        }
        for (i, d) in deps.iter().enumerate() {
            g.define_type(format!("d{i}"), *d).unwrap();
        }
        g.define_type("a", Type::Value(a_vt)).unwrap();
        outs.insert(g.encode(EncodeOptions::default()).unwrap());
    }
    assert_eq!(outs.len(), 1, "encoding differs between identical histories");
}
