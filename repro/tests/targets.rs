use indexmap::IndexMap;
use wac_graph::{types::{BorrowedPackageKey, Package, Types, validate_target, ItemKind, Type}, EncodeOptions};
use wac_parser::Document;

fn wit_package(dep_version: &str) -> Vec<u8> {
    let mut resolve = wit_parser::Resolve::new();
    resolve.push_str("dep.wit", &format!("package foo:dep@{dep_version};\ninterface iface {{ f: func(); }}\n")).unwrap();
    let pkg = resolve.push_str("w.wit", &format!("package test:tgt;\nworld w {{ import foo:dep/iface@{dep_version}; }}\n")).unwrap();
    wit_component::encode(&resolve, pkg).unwrap()
}

fn comp(import_version: &str) -> Vec<u8> {
    wat::parse_str(format!(r#"(component (import "foo:dep/iface@{import_version}" (instance (export "f" (func)))))"#)).unwrap()
}

// D11: resolution-time target check (exact names) vs stand-alone check (semver-aware)
#[test]
fn d11_verdicts_agree() {
    let world = wit_package("0.2.1");
    let c = comp("0.2.0");
    // 1. the document with a `targets` clause
    let src_t = "package test:doc targets test:tgt/w;\nlet c = new test:comp { ... };\n";
    let src_n = "package test:doc;\nlet c = new test:comp { ... };\n";
    let mk = |src: &'static str| {
        let doc = Document::parse(src).unwrap();
        let mut pk: IndexMap<BorrowedPackageKey, Vec<u8>> = IndexMap::new();
        pk.insert(BorrowedPackageKey::from_name_and_version("test:comp", None), c.clone());
        pk.insert(BorrowedPackageKey::from_name_and_version("test:tgt", None), world.clone());
        doc.resolve(pk).map(|r| r.encode(EncodeOptions::default()).unwrap()).map_err(|e| e.to_string())
    };
    let with_targets = mk(src_t);
    let without = mk(src_n).expect("composition itself resolves");
    // 2. stand-alone check of the encoded output against the same world
    let mut types = Types::default();
    let wpkg = Package::from_bytes("test:tgt", None, world.clone(), &mut types).unwrap();
    let out = Package::from_bytes("out", None, without, &mut types).unwrap();
    let ItemKind::Type(Type::World(wid)) = wpkg.definitions()["w"] else { panic!() };
    let standalone = validate_target(&types, wid, out.ty());
    println!("resolution-time: {:?}", with_targets.as_ref().map(|_| ()));
    println!("stand-alone: {:?}", standalone.as_ref().map_err(|e| e.to_string()));
    assert_eq!(with_targets.is_ok(), standalone.is_ok(), "the two conformance checks disagree");
}

fn wit_package_export(dep_version: &str) -> Vec<u8> {
    let mut resolve = wit_parser::Resolve::new();
    resolve.push_str("dep.wit", &format!("package foo:dep@{dep_version};\ninterface iface {{ f: func(); }}\n")).unwrap();
    let pkg = resolve.push_str("w.wit", &format!("package test:tgt;\nworld w {{ export foo:dep/iface@{dep_version}; }}\n")).unwrap();
    wit_component::encode(&resolve, pkg).unwrap()
}

#[test]
fn d11b_export_verdicts_agree() {
    let world = wit_package_export("0.2.1");
    let c = wat::parse_str(r#"(component
      (core module $m (func (export "f")))
      (core instance $i (instantiate $m))
      (func $f (canon lift (core func $i "f")))
      (instance $inst (export "f" (func $f)))
      (export "foo:dep/iface@0.2.3" (instance $inst)))"#).unwrap();
    let src_t = "package test:doc targets test:tgt/w;\nlet c = new test:comp { };\nexport c[\"foo:dep/iface@0.2.3\"];\n";
    let src_n = "package test:doc;\nlet c = new test:comp { };\nexport c[\"foo:dep/iface@0.2.3\"];\n";
    let mk = |src: &'static str| {
        let doc = Document::parse(src).unwrap();
        let mut pk: IndexMap<BorrowedPackageKey, Vec<u8>> = IndexMap::new();
        pk.insert(BorrowedPackageKey::from_name_and_version("test:comp", None), c.clone());
        pk.insert(BorrowedPackageKey::from_name_and_version("test:tgt", None), world.clone());
        doc.resolve(pk).map(|r| r.encode(EncodeOptions::default()).unwrap()).map_err(|e| e.to_string())
    };
    let with_targets = mk(src_t);
    let without = mk(src_n).expect("composition itself resolves");
    let mut types = Types::default();
    let wpkg = Package::from_bytes("test:tgt", None, world.clone(), &mut types).unwrap();
    let out = Package::from_bytes("out", None, without, &mut types).unwrap();
    let ItemKind::Type(Type::World(wid)) = wpkg.definitions()["w"] else { panic!() };
    let standalone = validate_target(&types, wid, out.ty());
    println!("resolution-time: {:?}", with_targets.as_ref().map(|_| ()));
    println!("stand-alone: {:?}", standalone.as_ref().map_err(|e| e.to_string()));
    assert_eq!(with_targets.is_ok(), standalone.is_ok(), "the two conformance checks disagree");
}
