use wac_graph::{types::Package, CompositionGraph, EncodeOptions};
use wac_parser::Document;

const N: usize = 20000;

#[test]
fn deep_parens() {
    let src = format!("package a:b; let x = {}y{};", "(".repeat(N), ")".repeat(N));
    let _ = Document::parse(&src);
}

#[test]
fn deep_list_type() {
    let src = format!("package a:b; type t = {}u8{};", "list<".repeat(N), ">".repeat(N));
    let _ = Document::parse(&src);
}

fn deep_component(n: usize) -> Vec<u8> {
    let mut w = String::from("(component\n (type (list u8))\n");
    for i in 1..n {
        w.push_str(&format!(" (type (list {}))\n", i - 1));
    }
    w.push_str(&format!(" (import \"f\" (func (param \"x\" {})))\n)", n - 1));
    wat::parse_str(&w).unwrap()
}

#[test]
fn deep_component_type_from_bytes() {
    let bytes = big(|| { let b = deep_component(N); wasmparser::Validator::new_with_features(wasmparser::WasmFeatures::all()).validate_all(&b).expect("valid"); b });
    println!("built and validated {} bytes", bytes.len());
    let mut g = CompositionGraph::new();
    let r = Package::from_bytes("t:p", None, bytes, g.types_mut());
    println!("from_bytes ok={}", r.is_ok());
}

#[test]
fn deep_component_type_encode() {
    let bytes = big(|| deep_component(N));
    let mut g = big(move || { let mut g = CompositionGraph::new();
      let p = Package::from_bytes("t:p", None, bytes, g.types_mut()).unwrap();
      let p = g.register_package(p).unwrap();
      g.instantiate(p); g });
    println!("graph built");
    let r = g.encode(EncodeOptions { define_components: false, validate: false, processor: None });
    println!("encode ok={}", r.is_ok());
}

fn big<T: Send + 'static>(f: impl FnOnce() -> T + Send + 'static) -> T {
    std::thread::Builder::new().stack_size(2 << 30).spawn(f).unwrap().join().unwrap()
}
