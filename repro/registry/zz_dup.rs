use crate::support::{publish_component, spawn_server};
use anyhow::Result;
use indexmap::IndexMap;
use tempdir::TempDir;
use wac_resolver::RegistryPackageResolver;
use wac_types::BorrowedPackageKey;

mod support;

fn comp(n: &str) -> String {
    format!(r#"(component (import "{n}" (func)))"#)
}

#[tokio::test(flavor = "multi_thread", worker_threads = 1)]
async fn same_name_two_versions() -> Result<()> {
    let root = TempDir::new("test")?;
    let (_server, config) = spawn_server(root.path()).await?;
    config.write_to_file(&root.path().join("warg-config.json"))?;
    publish_component(&config, "test:comp", "0.1.0", &comp("v1"), true).await?;
    publish_component(&config, "test:comp", "0.2.0", &comp("v2"), false).await?;
    publish_component(&config, "test:other", "0.1.0", &comp("other"), true).await?;

    let v1 = semver::Version::parse("0.1.0")?;
    let v2 = semver::Version::parse("0.2.0")?;
    let mut keys = IndexMap::new();
    keys.insert(BorrowedPackageKey::from_name_and_version("test:comp", Some(&v1)), (0usize, 0usize).into());
    keys.insert(BorrowedPackageKey::from_name_and_version("test:comp", Some(&v2)), (0usize, 0usize).into());
    keys.insert(BorrowedPackageKey::from_name_and_version("test:other", Some(&v1)), (0usize, 0usize).into());

    let resolver = RegistryPackageResolver::new_with_config(None, &config, None).await?;
    let packages = resolver.resolve(&keys).await?;
    assert_eq!(packages.len(), 3, "a key was dropped");
    for (k, want) in [(0, "v1"), (1, "v2"), (2, "other")] {
        let (key, _) = keys.get_index(k).unwrap();
        let text = wasmprinter::print_bytes(&packages[key])?;
        assert!(text.contains(&format!("\"{want}\"")), "key {k} got {text}");
    }
    Ok(())
}
