//! HEAD defect 1: an exported interface that uses a type of another *exported*
//! interface cannot be composed with `define_components: false`.
//!
//! Copy to `crates/wac-graph/tests/demo_head_1.rs`.

use anyhow::Result;
use wac_graph::{types::Package, CompositionGraph, EncodeOptions};
use wasmparser::{Validator, WasmFeatures};

/// Exports `foo:bar/a` (defines `t`) and `foo:bar/b` (re-exports `a`'s `t`, i.e.
/// `interface b { use a.{t}; }`). No imports at all.
const COMPONENT: &str = r#"
(component
  (type $t (record (field "x" u32)))
  (instance $a (export "t" (type $t)))
  (export $ea "foo:bar/a" (instance $a))
  (alias export $ea "t" (type $at))
  (instance $b (export "t" (type $at)))
  (export "foo:bar/b" (instance $b))
)
"#;

#[test]
fn export_using_a_type_of_another_export() -> Result<()> {
    let bytes = wat::parse_str(COMPONENT)?;

    // The input is a valid component.
    Validator::new_with_features(WasmFeatures::all()).validate_all(&bytes)?;

    let mut graph = CompositionGraph::new();
    let pkg = Package::from_bytes("test:pkg", None, bytes, graph.types_mut())?;
    let id = graph.register_package(pkg)?;
    graph.instantiate(id);

    // Fine when the component is embedded ...
    graph
        .encode(EncodeOptions {
            define_components: true,
            validate: true,
            ..Default::default()
        })
        .expect("embedding the component works");

    // ... but this call fails on HEAD: the written component type imports
    // `foo:bar/a`, which the instantiation does not (and cannot) supply.
    graph.encode(EncodeOptions {
        define_components: false,
        validate: true,
        ..Default::default()
    })?;
    Ok(())
}
