//! HEAD defect 2: a nested component type whose world-level type import is
//! `use`d from an interface that the same component type also imports is
//! written with that interface imported twice.
//!
//! Copy to `crates/wac-graph/tests/demo_head_2.rs`.

use anyhow::Result;
use wac_graph::{types::Package, CompositionGraph, EncodeOptions};
use wasmparser::{Validator, WasmFeatures};

/// Imports a component `c` whose type is what wit-component writes for
/// `world { import a; use a.{t}; }`.
const COMPONENT: &str = r#"
(component
  (import "c" (component
    (import "foo:bar/a" (instance $a
      (type $r (record (field "x" u32)))
      (export "t" (type (eq $r)))
    ))
    (alias export $a "t" (type $t))
    (import "t" (type (eq $t)))
  ))
)
"#;

#[test]
fn nested_component_type_with_a_world_level_use() -> Result<()> {
    let bytes = wat::parse_str(COMPONENT)?;

    // The input is a valid component.
    Validator::new_with_features(WasmFeatures::all()).validate_all(&bytes)?;

    let mut graph = CompositionGraph::new();
    let pkg = Package::from_bytes("test:pkg", None, bytes, graph.types_mut())?;
    let id = graph.register_package(pkg)?;
    graph.instantiate(id);

    // This call fails on HEAD; `define_components: true` fails the same way,
    // because the type of the implicit top-level import `c` is written by the
    // same code.
    graph.encode(EncodeOptions {
        define_components: false,
        validate: true,
        ..Default::default()
    })?;
    Ok(())
}
