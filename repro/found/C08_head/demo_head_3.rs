//! HEAD defect 3: the type encoder finds resources by *name* in a per-scope map
//! (`Scope::resources`), which is wrong or panics when the name is not the one
//! the resource has in the scope being written.
//!
//! Copy to `crates/wac-graph/tests/demo_head_3.rs`.

use anyhow::Result;
use wac_graph::{types::Package, CompositionGraph, EncodeOptions};
use wasmparser::{Validator, WasmFeatures};

fn compose(wat: &str, define_components: bool) -> Result<Vec<u8>> {
    let bytes = wat::parse_str(wat)?;

    // The input is a valid component.
    Validator::new_with_features(WasmFeatures::all()).validate_all(&bytes)?;

    let mut graph = CompositionGraph::new();
    let pkg = Package::from_bytes("test:pkg", None, bytes, graph.types_mut())?;
    let id = graph.register_package(pkg)?;
    graph.instantiate(id);
    Ok(graph.encode(EncodeOptions {
        define_components,
        validate: true,
        ..Default::default()
    })?)
}

/// 3a: an instance export that is an alias of a resource imported by the
/// enclosing component under another name.
/// Panics in `TypeEncoder::export_resource` ("no entry found for key").
#[test]
fn instance_export_aliasing_an_outer_resource() -> Result<()> {
    compose(
        r#"
(component
  (import "r" (type $r (sub resource)))
  (import "i" (instance
    (alias outer 1 $r (type $rr))
    (export "x" (type (eq $rr)))
  ))
)
"#,
        true,
    )?;
    Ok(())
}

/// 3b: a function that takes a handle to a resource of an imported instance,
/// without a type import for the resource at the same level.
/// Panics in `TypeEncoder::own` ("no entry found for key").
#[test]
fn handle_to_a_resource_of_an_imported_instance() -> Result<()> {
    compose(
        r#"
(component
  (import "a" (instance $a (export "r" (type (sub resource)))))
  (alias export $a "r" (type $r))
  (import "f" (func (param "x" (own $r))))
)
"#,
        true,
    )?;
    Ok(())
}

/// 3c: two imported interfaces that both call their resource `r`, both used by
/// the world, one of them renamed (`use a.{r}; use b.{r as r2};`).
/// `TypeEncoder::import_resource` resolves `r2` to `a`'s `r`; no panic, but the
/// composition does not validate.
#[test]
fn renamed_use_of_a_resource_with_a_clashing_name() -> Result<()> {
    compose(
        r#"
(component
  (import "foo:bar/a" (instance $a (export "r" (type (sub resource)))))
  (import "foo:bar/b" (instance $b (export "r" (type (sub resource)))))
  (alias export $a "r" (type $ar))
  (import "r" (type (eq $ar)))
  (alias export $b "r" (type $br))
  (import "r2" (type (eq $br)))
)
"#,
        true,
    )?;
    Ok(())
}
