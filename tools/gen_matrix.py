#!/usr/bin/env python3
"""Render seeded/RESULTS.json (+ meta.json of every seeded change) as seeded/MATRIX.md:
one row per independently produced breaking change, which rules of which checks fire on it."""
import json, os, re, sys
HERE = os.path.dirname(os.path.abspath(__file__))
sd = os.path.join(HERE, "..", "seeded")
res = json.load(open(os.path.join(sd, "RESULTS.json")))
for extra in sys.argv[1:]:
    if os.path.exists(extra):
        for k, v in json.load(open(extra)).items():
            old = res.get(k, {"caught_by": {}})
            cb = dict(old.get("caught_by", {}))
            cb.update(v.get("caught_by", {}))
            res[k] = {"caught_by": cb, "own_property_caught": k.split("-")[0] in cb}
json.dump(res, open(os.path.join(sd, "RESULTS.json"), "w"), indent=1, sort_keys=True)


def title(d):
    p = os.path.join(sd, d, "README.md")
    if not os.path.exists(p):
        return ""
    r = open(p).read()
    m = re.search(r"^#+\s*(.+)$", r, re.M)
    t = (m.group(1) if m else r.strip().split("\n")[0]).strip()
    t = re.sub(r"^Change\s*\d+\s*[-—–:]*\s*", "", t)
    return t.replace("|", "/")[:110]


first = json.load(open(os.path.join(sd, "FIRST_RUN.json")))["first_run"] if os.path.exists(os.path.join(sd, "FIRST_RUN.json")) else {}
rows = []
names = sorted(d for d in os.listdir(sd) if os.path.isdir(os.path.join(sd, d)))
n_own = n_any = 0
for d in names:
    r = res.get(d)
    meta = json.load(open(os.path.join(sd, d, "meta.json")))
    files = ", ".join(os.path.basename(f) for f in meta.get("files", []))
    if r is None:
        rows.append("| %s | %s | %s | (not run) | | %s |" % (d, title(d), files, first.get(d, "–")))
        continue
    cb = r["caught_by"]
    own = d.split("-")[0]
    rules = []
    for p in sorted(cb, key=lambda p: (p != own, p)):
        rs = sorted({k.split("|")[0] for k in cb[p]})
        rules.append("%s: %s" % (p, ", ".join(rs)))
    n_any += bool(cb)
    n_own += own in cb
    rows.append("| %s | %s | %s | %s | %s | %s |" % (d, title(d), files, "; ".join(rules) if rules else "**missed**", "yes" if own in cb else ("other" if cb else "no"), first.get(d, "–")))
out = ["# Seeded changes × checks", "",
       "Every row is a source change produced by an independent sub-agent that was given only the text of one property",
       "(directory `seeded/<name>/`: `patch.diff`, `demo/`, `meta.json`).  Each was confirmed in a scratch worktree to compile,",
       "to leave the pinned test suite's results unchanged, and to make its demonstration fail.  The last columns list the rules",
       "that report a violation when the patch is applied to a scratch copy of the tree (`tools/seedtest.py`), grouped by check;",
       "`own` says whether the check of the property the change was written against fires.", "",
       "%d changes; %d caught by at least one check; %d caught by the check of their own property." % (len(names), n_any, n_own), "",
       "First run (rounds 2+): %d caught, %d missed by the rules as they stood when the change arrived." % (sum(1 for v in first.values() if v == "caught"), sum(1 for v in first.values() if v == "missed")), "",
       "| change | what it does | file(s) | rules that fire now | own | first run |", "|---|---|---|---|---|---|"] + rows
open(os.path.join(sd, "MATRIX.md"), "w").write("\n".join(out) + "\n")
print("%d changes, %d caught, %d by own check" % (len(names), n_any, n_own))
