#!/usr/bin/env python3
"""debug helper: apply a seeded/controls patch to a scratch copy, extract facts, run one property's rules with tracebacks.
usage: dbg_seed.py <dir under /verif (e.g. seeded/C10-r2-2)> <PROP> [--keep]"""
import sys, os, subprocess, shutil, traceback, importlib
HERE = os.path.dirname(os.path.abspath(__file__))
sys.path.insert(0, os.path.join(HERE, "..", "lib"))
import engine, selftest, facts, prov as provmod
d = os.path.join(HERE, "..", sys.argv[1])
root = selftest.scratch_copy()
try:
    r = subprocess.run(["patch", "-p1", "-s", "-i", os.path.join(d, "patch.diff")], cwd=root, capture_output=True, text=True)
    assert r.returncode == 0, r.stdout + r.stderr
    fdir = engine.ensure_facts("default", repo=root)
    print("FACTS", fdir)
    for pid in sys.argv[2].split(","):
        mod = importlib.import_module(pid.lower())
        db = facts.DB(fdir)
        ctx = engine.Ctx(pid, "quick", db, provmod.Prov(db))
        ctx.facts_dir = fdir
        ctx.repo_root = root
        try:
            mod.run(ctx)
        except Exception:
            traceback.print_exc()
        for o in ctx.obs:
            if not o["ok"]:
                print("VIOL", o["key"], "--", o["why"][:300])
finally:
    if "--keep" not in sys.argv:
        shutil.rmtree(root, ignore_errors=True)
