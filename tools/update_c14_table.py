#!/usr/bin/env python3
"""Regenerate specs/panic_sites.json from the current tree, keeping the reviewed invariants/statuses of existing entries.
New entries get an empty invariant / status "new" and must be reviewed by hand before committing."""
import sys, os, json
sys.path.insert(0, os.path.join(os.path.dirname(os.path.abspath(__file__)), "..", "lib"))
import facts, engine, prov, c14
db = facts.DB(engine.ensure_facts())
ctx = engine.Ctx("C14", "quick", db, prov.Prov(db))
new = c14.gen_table(ctx)
old = json.load(open(c14.TABLE))
inv = {(fid, e["macro"], e["msg"]): e["invariant"] for fid, v in old["macros"].items() for e in v}
for fid, v in new["macros"].items():
    for e in v:
        e["invariant"] = inv.get((fid, e["macro"], e["msg"]), "")
        if not e["invariant"]:
            print("NEW macro site:", fid, e)
rec = {e["scc"]: e for e in old["recursion"]}
new["recursion"] = [rec.get(e["scc"], e) for e in new["recursion"]]
for e in new["recursion"]:
    if e.get("status") == "new":
        print("NEW recursive SCC:", e["scc"])
for k in ("_doc", "span_consts_reasons"):
    if k in old:
        new[k] = old[k]
json.dump(new, open(c14.TABLE, "w"), indent=1)
