#!/usr/bin/env python3
"""Regenerate specs/panic_sites.json from the current tree, keeping the reviewed invariants/statuses of existing entries.
New entries get an empty invariant / status "new" and must be reviewed by hand before committing."""
import sys, os, json
sys.path.insert(0, os.path.join(os.path.dirname(os.path.abspath(__file__)), "..", "lib"))
import facts, engine, prov, c14
db = facts.DB(engine.ensure_facts())
ctx = engine.Ctx("C14", "quick", db, prov.Prov(db))
new = c14.gen_table(ctx)
old = json.load(open(c14.TABLE))
import re
inv = {(fid, e["macro"], e["msg"]): e["invariant"] for fid, v in old["macros"].items() for e in v}
RULES = [
 (r"assertion failed: prev\.is_none\(\)", "memo/registry insert directly after a failed lookup (or first registration) of the same key in the same body"),
 (r"invalid cached type|expected a (resource|function type|interface|module type|world)$|expected an interface|^$", "the conversion/remap caches are keyed by entity kind: an id of kind K is only ever inserted with an entity of kind K"),
 (r"encodable|expected a builder|expected a component( or instance)? type|expected scopes to be empty|scopes\.is_empty", "State::push/pop are paired inside one body and builder() is only used at top level (checked by C01 R01.2)"),
 (r"expected the node to be an instantiation|unexpected edge for an instantiation|node should be an instantiation", "only called on targets of Argument edges / nodes whose kind was tested by the caller (C06 R06.1 who-may-call)"),
 (r"alias source should be an instance|source of an alias to be an instance", "alias edges are only added from nodes whose item kind is Instance (alias_instance_export tests it)"),
 (r"invalid package id|types collection|package type is not present", "documented API precondition (caller-supplied identifier/type must belong to this graph); the resolver only passes ids the graph returned"),
 (r"cannot encode a resource|resources cannot be defined|only types can be defined|type should not be a resource", "define_type rejects resources and non-types, so definition nodes only hold definable types"),
 (r"entered unreachable code$", "match arm excluded by the partition that precedes the loop (import nodes are filtered out)"),
 (r"lookahead had no attempts", "Lookahead::error is only called after at least one failed peek"),
 (r"expected all tokens to be consumed", "the statement loop runs until peek() is None"),
 (r"types\.is_empty", "the tuple production checks for an empty list before constructing the type"),
 (r"duplicate type in scope|argument should not already be passed|should not be already defined|parsed an invalid type name", "the resolver tests the name/argument for duplicates and the lexer validates identifiers before this operation"),
 (r"path segments should never b|a resource method cannot be", "excluded by the grammar: the parser never produces this shape"),
 (r"the item is not a node", "callers test Item::Node before asking for the node"),
 (r"AST contained a cycle", "names must be defined before use, so documents cannot produce cyclic graphs"),
 (r"aliases should have been resolved|should already be handled|expected to be handled", "the enclosing match handles these variants in earlier arms / resolves aliases first"),
 (r"all data should be present", "the parser is driven with eof=true"),
 (r"assertion failed: inserted|entry\.package\.is_none", "set/slot bookkeeping invariant of CompositionGraph (C06 R06.1/R06.6)"),
 (r"assertion `left == right` failed|assertion `left != right` failed", "consistency assertion over petgraph edge endpoints / validated encoding (documented invariant of the library call just made)"),
]
def auto(e):
    for rx, why in RULES:
        if re.search(rx, e["msg"]):
            return why
    if e["macro"] in ("assert_eq", "assert_ne"):
        return RULES[-1][1]
    return ""
for fid, v in new["macros"].items():
    for e in v:
        e["invariant"] = inv.get((fid, e["macro"], e["msg"]), "") or auto(e)
        if not e["invariant"]:
            print("NEW macro site:", fid, e)
rec = {e["scc"]: e for e in old["recursion"]}
new["recursion"] = [dict(rec.get(e["scc"], e), members=e["members"]) for e in new["recursion"]]
for e in new["recursion"]:
    if e.get("status") == "new":
        print("NEW recursive SCC:", e["scc"])
for k in ("_doc", "span_consts_reasons"):
    if k in old:
        new[k] = old[k]
json.dump(new, open(c14.TABLE, "w"), indent=1)
