#!/usr/bin/env python3
"""pretty-print the extracted MIR facts of functions matching a regex (exploration aid)."""
import sys, os, re
sys.path.insert(0, os.path.join(os.path.dirname(os.path.abspath(__file__)), "..", "lib"))
import facts, engine
fd = os.environ.get("FACTS") or engine.ensure_facts()
db = facts.DB(fd)
pat = sys.argv[1]
nolog = "--log" not in sys.argv
for f in db.fns_matching(pat):
    print("=" * 100)
    print(f.id, f.kind, f.span, "args=%d" % f.arg_count)
    print("  names:", {k: v for k, v in f.names.items()})
    for b in f.blocks:
        if b.cleanup:
            continue
        if nolog and (any("log" in m for m in b.term.mac) and all(any("log" in m for m in s.mac) for s in b.stmts)):
            print("  bb%d: [log] -> %s" % (b.idx, b.term.succs()))
            continue
        print("  bb%d:" % b.idx)
        for s in b.stmts:
            print("      %r    ; %s" % (s, s.span.split("/")[-1]))
        t = b.term
        if t.k == "call":
            print("      CALL %s(%s) -> %r  => bb%s   ; %s %s" % (t.path, ", ".join(map(repr, t.args)), t.dest, t.target, t.span.split("/")[-1], t.mac or ""))
        elif t.k == "switch":
            print("      SWITCH %r %s else bb%s" % (facts.Operand(t.j["discr"]), t.j["targets"], t.j["otherwise"]))
        else:
            print("      %s -> %s" % (t.k.upper(), t.succs()))
