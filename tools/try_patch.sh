#!/bin/bash
# usage: try_patch.sh [-R] <patch> <property ids...>   — apply patch to /repo, run the quick checks, undo.
REV=""
if [ "$1" = "-R" ]; then REV="-R"; shift; fi
P=$(realpath "$1"); shift
cd /repo || exit 2
if [ -n "$(git status --porcelain)" ]; then echo "/repo is dirty"; exit 2; fi
git apply $REV "$P" || { echo "patch does not apply"; exit 2; }
trap 'git -C /repo checkout -- . ; git -C /repo clean -fdq -- crates src examples 2>/dev/null' EXIT
cd /verif
for id in "$@"; do
  ./check $id 2>&1 | grep -E "^property=|VIOLATION|violation|KNOWN|anchor|Error|error" | head -${LINES_MAX:-12}
done
