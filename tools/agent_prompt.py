#!/usr/bin/env python3
"""Print the prompt given to a mutation sub-agent for one property (property text only)."""
import json, sys
pid = sys.argv[1]
n = sys.argv[2] if len(sys.argv) > 2 else "3"
for l in open('/verif/properties.jsonl'):
    p = json.loads(l)
    if p['id'] == pid:
        break
else:
    sys.exit("no such property")
wt = f"/tmp/seed/{pid}"
import os
avoid = ""
if len(sys.argv) > 3 and os.path.exists(sys.argv[3]):
    a = json.load(open(sys.argv[3])).get(pid, [])
    if a:
        avoid = "\nAn earlier participant already delivered the following changes for this property — do NOT repeat these ideas or close variants of them; look for different mechanisms, different functions, different kinds of slip:\n" + "\n".join("  * " + x for x in a) + "\n"
print(f"""You are helping to evaluate how well a software-verification effort detects regressions. Your job is to play the role of a developer who introduces a *realistic, subtle bug* into a code base.

Work ONLY inside the git worktree {wt} — a checkout of the Rust workspace bytecodealliance/wac (WAC: a language, parser, resolver and composition-graph encoder that composes WebAssembly components). Do NOT read or touch /verif or /repo or any other directory under /tmp/seed. The sandbox has no network: always pass --offline to cargo. Use the pre-warmed build directory: export CARGO_TARGET_DIR={wt}/target for every cargo command.

The property under study (this is everything you are told about the verification effort):

  Title: {p['title']}
  Statement: {p['statement']}
  Quantifier: {p['quantifier']['text']}
  Anchored in files: {', '.join(p['anchors']['files'])}
  Mechanisms: {json.dumps(p['anchors']['mechanism'])}

{avoid}
Task: produce up to {n} *independent* source changes (each one a separate small patch against HEAD) to the wac sources (not tests) such that each change
  (a) BREAKS the property above for some input/history/configuration,
  (b) still compiles, and the existing test suite still passes with it:  cargo test --workspace --no-fail-fast --offline   (run the suite with RUST_BACKTRACE=0; all tests must pass exactly as on the unmodified tree),
  (c) needs something *specific* to manifest — an unusual input, a multi-step sequence of operations, a particular ordering, or two cooperating sites that each look fine alone — NOT something ordinary use would expose at once,
  (d) looks like a plausible slip a developer could make (refactoring error, wrong variable, dropped case, swapped arguments, off-by-one, missing cleanup, an 'optimisation' that is wrong in a corner case...), in the code the property is anchored in. Prefer variety: make the changes differ in kind and in location. Do not add comments that give the bug away.
For each change also write a DEMONSTRATION: a Rust integration test file (or small program) that FAILS with the change applied and PASSES on the unmodified tree, exercising the real public API / CLI.

Deliverables: for change k (k = 1..{n}) create directory {wt}/_out/k/ containing
  - patch.diff  : `git diff` of the source change only (must apply to HEAD with `git apply`), NOT including the demonstration
  - demo/       : the demonstration file(s), plus RUN.md with the exact commands: where to copy the file (e.g. crates/wac-graph/tests/demo_k.rs) and the cargo command to run it
  - README.md   : what the change is, which part of the property it breaks, what is needed for it to manifest, and what you ran (outputs of: existing suite with patch; demo with patch → fails; demo without patch → passes)
You must actually verify all three facts for every change you deliver. If the test suite catches your change, it does not count — pick another.
When finished, restore the worktree sources to HEAD (git checkout -- . ; remove demo files you copied into the tree) so that only _out/ remains as an untracked directory. Reply with a short summary of the changes you delivered.""")
