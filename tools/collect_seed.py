#!/usr/bin/env python3
"""copy confirmed sub-agent mutants from /tmp/seed/<P>/_out/<k> into /verif/seeded/<P>-<k>/ (patch.diff, demo/, README.md, meta.json)"""
import sys, os, shutil, json, re, subprocess
TAG = ""
args = sys.argv[1:]
if args and args[0] == "--tag":
    TAG = args[1] + "-"; args = args[2:]
for P in args:
    base = "/tmp/seed/%s/_out" % P
    for k in sorted(os.listdir(base)):
        d = os.path.join(base, k)
        if not (k.isdigit() and os.path.isdir(d)):
            continue
        v = open(os.path.join(d, "VERIFY.txt")).read() if os.path.exists(os.path.join(d, "VERIFY.txt")) else ""
        forced = os.path.exists(os.path.join(d, "MANUAL_CONFIRMED"))
        if "RESULT confirmed" not in v and not forced:
            print("skip", P, k, "(not confirmed)")
            continue
        out = "/verif/seeded/%s-%s%s" % (P, TAG, k)
        shutil.rmtree(out, ignore_errors=True)
        os.makedirs(out)
        shutil.copy(os.path.join(d, "patch.diff"), out)
        shutil.copytree(os.path.join(d, "demo"), os.path.join(out, "demo"))
        readme = open(os.path.join(d, "README.md")).read() if os.path.exists(os.path.join(d, "README.md")) else ""
        open(os.path.join(out, "README.md"), "w").write(readme)
        head = subprocess.run(["git", "-C", "/repo", "rev-parse", "--short", "HEAD"], capture_output=True, text=True).stdout.strip()
        files = re.findall(r"^\+\+\+ b/(.*)$", open(os.path.join(d, "patch.diff")).read(), re.M)
        meta = {"property": P, "source": "independent sub-agent given only the property text", "files": files,
                "needs_to_manifest": "", "confirmed": {"at_repo_commit": head, "suite_with_patch": "identical to baseline (RUST_BACKTRACE=0)",
                "demo_with_patch": "fails", "demo_without_patch": "passes", "how": "tools/verify_seed.sh in a scratch worktree" + (" + manual rerun" if forced else "")},
                "verify_log": v}
        m = re.search(r"(?is)(needs?|manifest|trigger)[^\n]*\n(.{0,600})", readme)
        meta["needs_to_manifest"] = (m.group(0)[:600] if m else readme[:600])
        json.dump(meta, open(os.path.join(out, "meta.json"), "w"), indent=1)
        print("kept", out)
