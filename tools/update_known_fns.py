#!/usr/bin/env python3
"""Snapshot the ids of all functions of the workspace crates at the reviewed tree into specs/known_fns.json.
Functions that are not in this list are treated as new helpers and analysed inlined into their callers (lib/facts.py)."""
import sys, os, json
HERE = os.path.dirname(os.path.abspath(__file__))
sys.path.insert(0, os.path.join(HERE, "..", "lib"))
os.environ["WACVERIF_NO_INLINE"] = "1"
import engine, facts
db = facts.DB(engine.ensure_facts())
ids = {f.id: facts.DB.fingerprint(f) for f in sorted(db.fns.values(), key=lambda x: x.id) if f.kind in ("Fn", "AssocFn") and "{closure" not in f.id}
import subprocess
head = subprocess.run(["git", "-C", "/repo", "rev-parse", "--short", "HEAD"], capture_output=True, text=True).stdout.strip()
json.dump({"_doc": "function ids of the reviewed tree; functions not listed here are new helpers and are analysed inlined into their callers",
           "reviewed_at": head, "fns": ids}, open(os.path.join(HERE, "..", "specs", "known_fns.json"), "w"), indent=0)
print(len(ids), "functions at", head)
