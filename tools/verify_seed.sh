#!/bin/bash
# usage: verify_seed.sh <PROP>   — confirms every /tmp/seed/<PROP>/_out/<k> at /repo's HEAD:
#   patch applies, suite unchanged with patch, demo fails with patch, demo passes without.
# writes /tmp/seed/<PROP>/_out/<k>/VERIFY.txt
P=$1
WT=/tmp/seed/$P
export CARGO_TARGET_DIR=$WT/target CARGO_NET_OFFLINE=true RUST_BACKTRACE=0
cd $WT || exit 2
git checkout -q -- . ; git checkout -q --detach $(git -C /repo rev-parse HEAD) || exit 2
suite() { cargo test --workspace --no-fail-fast --offline 2>&1 | grep -E "^test .* \.\.\. (ok|FAILED|ignored)" | sed 's/ - should panic//' | sort; }
suite > _out/suite_base.txt
echo "baseline suite: $(grep -c ' ok$' _out/suite_base.txt) ok, $(grep -c FAILED _out/suite_base.txt) failed"
for d in _out/[0-9]*; do
  k=$(basename $d)
  V=$d/VERIFY.txt; : > $V
  run=$d/demo/RUN.md
  # copy / mkdir commands and the cargo test command(s) from RUN.md
  grep -E "^\s*(mkdir -p|cp ) ?" $run | grep -v "^#" | sed 's/^\s*//' | awk '!seen[$0]++' > $d/.setup.sh
  grep -E "^\s*([A-Z_]+=[^ ]+ )*cargo test" $run | sed 's/^\s*//' | sort -u > $d/.test.sh
  echo "setup: $(cat $d/.setup.sh | tr '\n' ';')" >> $V
  echo "test:  $(cat $d/.test.sh | tr '\n' ';')" >> $V
  git apply --check $d/patch.diff 2>>$V || { echo "RESULT patch-does-not-apply" >> $V; continue; }
  # 1. demo on unmodified tree
  bash -e $d/.setup.sh >>$V 2>&1
  if bash -e $d/.test.sh > $d/.demo_base.log 2>&1; then echo "demo without patch: PASS" >> $V; B=1; else echo "demo without patch: FAIL" >> $V; B=0; fi
  # 2. demo with patch
  git apply $d/patch.diff
  if bash -e $d/.test.sh > $d/.demo_patch.log 2>&1; then echo "demo with patch: PASS" >> $V; M=1; else echo "demo with patch: FAIL" >> $V; M=0; fi
  # 3. suite with patch (without demo files)
  git clean -fdq -- crates src tests examples 2>/dev/null
  suite > $d/.suite_patch.txt
  if diff -q _out/suite_base.txt $d/.suite_patch.txt >/dev/null; then echo "suite with patch: identical to baseline" >> $V; S=1; else echo "suite with patch: DIFFERS" >> $V; diff _out/suite_base.txt $d/.suite_patch.txt >> $V; S=0; fi
  git checkout -q -- . ; git clean -fdq -- crates src tests examples 2>/dev/null
  if [ $B = 1 ] && [ $M = 0 ] && [ $S = 1 ]; then echo "RESULT confirmed" >> $V; else echo "RESULT rejected" >> $V; fi
  echo "$P/$k: $(tail -1 $V)"
done
