#!/usr/bin/env python3
"""Run checks against seeded mutants on scratch copies of /repo.
usage: seedtest.py [--props C07,C01] <seeded dir names or 'all'>      results appended to seeded/RESULTS.json"""
import sys, os, json, subprocess, shutil, time, re
HERE = os.path.dirname(os.path.abspath(__file__))
sys.path.insert(0, os.path.join(HERE, "..", "lib"))
import engine, selftest

args = sys.argv[1:]
props = None
if args and args[0] == "--props":
    props = args[1].split(",")
    args = args[2:]
man = json.load(open(os.path.join(HERE, "..", "MANIFEST.json")))
claimed = [c["property_id"] for c in man["checks"]]
allp = sorted(set(claimed) | {p[:-3].upper() for p in os.listdir(os.path.join(HERE, "..", "lib")) if re.fullmatch(r"c\d\d\.py", p)})
sd = os.path.join(HERE, "..", os.environ.get("SEED_DIR", "seeded"))
names = sorted(d for d in os.listdir(sd) if os.path.isdir(os.path.join(sd, d))) if args == ["all"] else args
resf = os.environ.get("SEED_RESULTS") or os.path.join(sd, "RESULTS.json")
results = json.load(open(resf)) if os.path.exists(resf) else {}
for name in names:
    d = os.path.join(sd, name)
    root = selftest.scratch_copy()
    try:
        r = subprocess.run(["patch", "-p1", "-s", "-i", os.path.join(d, "patch.diff")], cwd=root, capture_output=True, text=True)
        if r.returncode != 0:
            print(name, "PATCH FAILED", r.stdout[-300:], r.stderr[-300:])
            continue
        try:
            fdir = engine.ensure_facts("default", repo=root)
        except SystemExit as e:
            print(name, "does not compile:", e)
            continue
        own = name.split("-")[0]
        res = {}
        for p in (props or allp):
            try:
                viol = selftest.run_rules(p, fdir, root=root)
            except Exception as e:
                viol = [{"key": "EXC:%s" % e}]
            if viol:
                res[p] = [v["key"] for v in viol]
        results[name] = {"caught_by": res, "own_property_caught": own in res}
        print("%-8s %s  %s" % (name, "CAUGHT" if res else "missed", {k: v[:3] for k, v in res.items()}))
    finally:
        shutil.rmtree(root, ignore_errors=True)
    json.dump(results, open(resf, "w"), indent=1, sort_keys=True)
