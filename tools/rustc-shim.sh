#!/bin/sh
# RUSTC_WRAPPER shim: rustix 0.37's build script probes `feature(rustc_attrs)` on
# nightly through `$RUSTC_WRAPPER $RUSTC - ...` with the program on stdin and then
# uses an attribute this nightly no longer has.  Answer that one probe with failure.
for a in "$@"; do
  if [ "$a" = "-" ]; then
    src=$(cat)
    case "$src" in
      *rustc_attrs*) exit 1 ;;
    esac
    printf '%s' "$src" | "$@"
    exit $?
  fi
done
exec "$@"
